"""C08 - register and simulator agree on which modes exist, for every history.

Stateful (rule-based) machine.  A history is a JSON list of actions; engines of several backends are driven in lock-step
against a model {index -> coherent amplitude}.  Every mode is prepared with an amplitude that depends on its index, and only
product-coherent-state-preserving operations are used (rotations, beamsplitters, re-preparation, deletion, post-selected
homodyne), so the model knows exactly which amplitude every *index* must carry after any history: mislabelled or shuffled
modes become visible in the returned state.
"""
from __future__ import annotations

import numpy as np
from hypothesis import strategies as st
from hypothesis.stateful import RuleBasedStateMachine, initialize, precondition, rule

import copy

from vf import gen, refsim, sfrun
from vf.core import Sub, Violation

RULE = ("histories of <= 24 actions {New(k), Del, Coherent(amp(index)), Rgate, BSgate(theta, phi), MeasureHomodyne(select), invalid access "
        "(deleted / foreign / duplicate target), run segment [optionally querying a subset; optionally written as a brand-new Program instead of "
        "Program(previous)]} over consecutive Program segments on one engine per backend (gaussian, fock pure, fock mixed; bosonic for "
        "single-segment histories), initial registers of 1-4 modes, <= 11 indices ever (two-digit labels), <= 4 active, the register may run "
        "empty; flavour 'squeezed' adds Sgate and drives the phase-space backends only; 'scratch' sequences (Vacuum; one of Sgate / Thermal / "
        "Squeezed / DisplacedSqueezed / Kgate / Vgate / Fock+MeasureFock / S2gate / CKgate / two-mode MeasureFock; re-preparation by Coherent / "
        "Ket / DensityMatrix / DisplacedSqueezed, two-mode Ket in either mode order) reach the remaining simulator entry points; a segment may "
        "address modes by RegRef, by bare integer or through the tuple handed out by Program.context, may be run twice (same Program object), "
        "with compile option optimize=True, or be built first and executed with its successor in one engine.run([p1, p2]); run(modes=..) in "
        "any order (incl. cyclic shifts); simulator API called directly with deleted / never created indices; "
        "non-trivial = a Del of a non-last mode followed by a state query, or a New after a Del")
ASSUMPTIONS = [
    "amplitudes are read from the returned state (means / quad_expectation) with tolerance 2e-3 (Fock cutoff 6, |alpha| <= 0.52)",
    "gaussian / bosonic: full means and covariance of the returned modes vs refsim of the history, 1e-8 (2e-4 after a post-selected homodyne: eps-POVM)",
    "a segment written as a fresh Program(k): the engine may refuse it (RuntimeError 'Register mismatch', the model is rolled back) or accept it; "
    "if accepted every invariant must hold, including consecutive never-reused indices",
    "bosonic engine: every Program restarts the simulator (finding F10, open) - bosonic is driven only through the first segment of a history",
    "run(modes=subset): subset refers to positions in the list of active modes for fock/gaussian (observed, consistent with mode_names); the "
    "check demands that the returned labels and data belong together, whichever convention the backend uses",
    "run(modes=<non-ascending list>): the returned labels may follow the given order (BaseBackend.state docstring; fock, gaussian) or be ascending "
    "(bosonic docstring); either way every label must carry the data of its own index",
    "scratch sequences: the target is in the vacuum state when the extra operation acts and is re-prepared afterwards, so the model only sees the "
    "re-preparation; parameters are mild (r <= 0.2, nbar 0.1, gamma 0.05) so that truncation at cutoff 6 stays below 1e-4 of the norm",
    "a Fock state |n> that is counted right away yields n (MeasureFock, Fock engines); Result.samples_dict holds one entry per measurement of the "
    "last program, filed under the index of the measured mode",
    "the same Program object may be run twice in a row when it neither creates nor deletes modes (Program.can_follow: 'program fragment repetition')",
    "simulator API (BaseBackend.begin_circuit docstring): an operation on a deleted or unassigned index raises (ValueError / IndexError accepted); "
    "negative indices are not generated (AUDIT-FINDING gaussian-negative-index)",
    "TensorFlow backend not exercised (not installed)",
]
REQUIRED_LABELS = {"all": ["del_first_mode", "new_multi", "second_segment", "invalid_access", "new_after_del", "subset_query_after_del",
                           "flavour:squeezed", "new_with_correlated_modes", "fresh_program_rejected", "fresh_program_accepted", "del_two_modes_at_once",
                           "addr:int", "addr:ctx", "all_modes_deleted", "new_after_all_deleted", "backend_probe:deleted", "backend_probe:never",
                           "run_list_of_programs", "run_mode:optimize", "program_rerun", "scratch_above_deleted", "prep_route:ket", "prep_route:dm",
                           "index_ge_10", "query_unsorted", "query_3cycle"]}

BACKENDS = ["gaussian", "fock_pure", "fock_mixed", "bosonic"]
CUTOFF = 6
MAX_EVER, MAX_ACTIVE = 11, 4  # indices 0..10: two-digit labels (q[10]) are reachable

# "scratch" sequences: Vacuum | t ; <op> | t ; <re-preparation of t with its own amplitude>.  The net effect on the model is the
# re-preparation; an operation routed to another live mode (or past the end of the simulator's arrays) becomes visible there.
SCRATCH_ONE = ["S", "T", "Q", "D", "K", "V", "F", "P"]  # Sgate, Thermal, Squeezed, DisplacedSqueezed, Kgate*, Vgate*, Fock(k)+MeasureFock*, nothing (* = Fock engines only)
SCRATCH_TWO = ["S2", "CK", "F2", "P2"]  # S2gate, CKgate*, two Fock states + one MeasureFock on both*, nothing
FINALS = ["coh", "ket", "dm", "dsq"]  # Coherent / Ket(coherent vector)* / DensityMatrix* / DisplacedSqueezed(alpha, 0, 0, 0)
RUN_MODES = ["plain", "repeat", "defer", "optimize"]


def amp(i):
    # indices >= 6 interleave with the first six (0.12, 0.20, .., 0.52 vs 0.15, 0.23, .., 0.47): every index keeps a distinct amplitude <= 0.52
    return 0.12 + 0.08 * i if i < 6 else 0.15 + 0.08 * (i - 6)


def _coh_ket(a):
    from math import factorial

    return np.array([a ** n / np.sqrt(factorial(n)) for n in range(CUTOFF)], dtype=complex) * np.exp(-abs(a) ** 2 / 2)


def _run_opts(a):
    o = a[3] if len(a) > 3 and isinstance(a[3], dict) else {}
    mode = o.get("mode", "plain")
    return {"ordered": bool(o.get("ordered", False)), "addr": o.get("addr", "ref") if o.get("addr", "ref") in ("ref", "int", "ctx") else "ref",
            "mode": mode if mode in RUN_MODES else "plain"}


class _FreshUnbuildable(Exception):
    """a segment written against a brand-new Program refers to an index that program does not have"""


class World:
    """interprets a history on the model and on the engines"""

    def __init__(self, ctx, n0, flavour="coherent"):
        import strawberryfields as sf

        self.sf = sf
        self.ctx = ctx
        self.n0 = n0
        self.flavour = flavour  # "coherent": product coherent states on all backends; "squeezed": squeezers and complex beamsplitters, phase-space backends
        self.ref = refsim.Ref(MAX_EVER, 2.0)  # full Gaussian model: index i <-> reference mode i (never-created / deleted indices are vacuum)
        self.measured = False
        self.snap = None
        self.model = {i: 0j for i in range(n0)}  # active index -> amplitude
        self.ever = n0
        self.deleted = []
        self.pending = []  # actions of the current segment
        self.segments = 0
        self.labels = set()
        self.eng = {}
        self.prev = {}
        self.backends = BACKENDS if flavour == "coherent" else ["gaussian", "bosonic"]
        self.labels.add("flavour:" + flavour)
        for b in self.backends:
            opts = {"cutoff_dim": CUTOFF, "pure": b == "fock_pure"} if b.startswith("fock") else {}
            self.eng[b] = sf.Engine(b.split("_")[0], backend_options=opts)
            self.prev[b] = None
        self.dead = set()
        self.did_del = False
        self.nontrivial = False
        self.broken = False
        self.pending_raw = []  # the unresolved actions of the current segment (re-applied to the model when the program object is run twice)
        self.queue = {b: [] for b in self.backends}  # programs that were built but are run later, in one engine.run([p1, p2, ..]) call
        # what the simulators have seen so far (differs from the model while programs are queued)
        self.ran_deleted, self.ran_ever, self.ran_active = [], n0, list(range(n0))

    def has_queue(self):
        return any(self.queue[b] for b in self.backends)

    # ---- model side ------------------------------------------------------------------------
    def active(self):
        return sorted(self.model)

    def apply_model(self, a):
        """returns the resolved action (positions -> indices) or None if not applicable"""
        act = self.active()
        kind = a[0]
        if kind == "new":
            k = min(a[1], MAX_EVER - self.ever, MAX_ACTIVE - len(act))
            if k < 1:
                return None
            idx = list(range(self.ever, self.ever + k))
            for i in idx:
                self.model[i] = 0j
            self.ever += k
            if len(act) >= 2:
                sub = [i for i in act]
                V = self.ref.reduced(sub)[1]
                m = len(sub)
                off = np.array([[0.0 if a_ % m == b_ % m else V[a_, b_] for b_ in range(2 * m)] for a_ in range(2 * m)])
                if float(np.max(np.abs(off))) > 1e-3:
                    self.labels.add("new_with_correlated_modes")
            if k > 1:
                self.labels.add("new_multi")
            if self.did_del:
                self.labels.add("new_after_del")
                self.nontrivial = True
            if not act and self.did_del:
                self.labels.add("new_after_all_deleted")
            if idx[-1] >= 10:
                self.labels.add("index_ge_10")
            return ["new", k, idx]
        if kind == "del":
            # ["del", p] never removes the only active mode; ["del", p, 1] may (boundary: a register with no live mode)
            if len(act) < (1 if len(a) > 2 and a[2] else 2):
                return None
            i = act[a[1] % len(act)]
            if i == act[0]:
                self.labels.add("del_first_mode")
            if i != act[-1]:
                self.labels.add("del_non_last")
            del self.model[i]
            self.deleted.append(i)
            self.did_del = True
            self.ref.trace_out_to_vacuum(i)
            if not self.model:
                self.labels.add("all_modes_deleted")
            return ["del", i]
        if kind == "delm":
            # one Del command on two modes, listed in the given (possibly ascending) order
            if len(act) < 3:
                return None
            i = act[a[1] % len(act)]
            j = act[a[2] % len(act)]
            if i == j:
                j = act[(act.index(i) + 1) % len(act)]
            for x in (i, j):
                del self.model[x]
                self.deleted.append(x)
                self.ref.trace_out_to_vacuum(x)
            self.did_del = True
            self.labels.add("del_two_modes_at_once")
            if min(i, j) != act[-1] and max(i, j) != act[-1] or True:
                self.labels.add("del_non_last")
            return ["delm", [i, j]]
        if not act:
            return None
        if kind == "coh":
            i = act[a[1] % len(act)]
            self.model[i] = complex(amp(i))
            self.ref.Coherent(amp(i), 0.0, i)
            return ["coh", i]
        if kind == "scratch":
            # ["scratch", kind, p, q, x, y, k, final, swap]: see SCRATCH_ONE / SCRATCH_TWO; the model only sees the re-preparation
            sk = a[1]
            two = sk in SCRATCH_TWO
            if (sk not in SCRATCH_ONE and not two) or (two and len(act) < 2):
                return None
            i = act[a[2] % len(act)]
            j = None
            if two:
                j = act[a[3] % len(act)]
                if i == j:
                    j = act[(act.index(i) + 1) % len(act)]
            for t in (i, j):
                if t is not None:
                    self.model[t] = complex(amp(t))
                    self.ref.Coherent(amp(t), 0.0, t)
            self.labels.add("scratch:" + sk)
            if a[7] != "coh":
                self.labels.add("prep_route:" + a[7])
            if any(d < i or (j is not None and d < j) for d in self.deleted):
                self.labels.add("scratch_above_deleted")
            return ["scratch", sk, i, j, float(a[4]), float(a[5]), int(a[6]), a[7] if a[7] in FINALS else "coh", bool(a[8])]
        if kind == "rot":
            i = act[a[1] % len(act)]
            self.model[i] *= np.exp(1j * a[2])
            self.ref.Rgate(a[2], i)
            return ["rot", i, a[2]]
        if kind == "disp":
            i = act[a[1] % len(act)]
            self.model[i] += a[2] * np.exp(1j * a[3])
            self.ref.Dgate(a[2], a[3], i)
            return ["disp", i, a[2], a[3]]
        if kind == "loss":
            i = act[a[1] % len(act)]
            self.model[i] *= np.sqrt(a[2])
            self.ref.LossChannel(a[2], i)
            return ["loss", i, a[2]]
        if kind == "vac":
            i = act[a[1] % len(act)]
            self.model[i] = 0j
            self.ref.Vacuum(i)
            return ["vac", i]
        if kind == "mz":
            if len(act) < 2:
                return None
            i = act[a[1] % len(act)]
            j = act[a[2] % len(act)]
            if i == j:
                j = act[(act.index(i) + 1) % len(act)]
            U = refsim.mz_unitary(a[3], a[4])
            ai, aj = self.model[i], self.model[j]
            self.model[i], self.model[j] = U[0, 0] * ai + U[0, 1] * aj, U[1, 0] * ai + U[1, 1] * aj
            self.ref.MZgate(a[3], a[4], i, j)
            return ["mz", i, j, a[3], a[4]]
        if kind == "s2":
            if self.flavour != "squeezed" or len(act) < 2:
                return None
            i = act[a[1] % len(act)]
            j = act[a[2] % len(act)]
            if i == j:
                j = act[(act.index(i) + 1) % len(act)]
            self.ref.S2gate(a[3], a[4], i, j)
            return ["s2", i, j, a[3], a[4]]
        if kind == "sq":
            if self.flavour != "squeezed":
                return None
            i = act[a[1] % len(act)]
            self.ref.Sgate(a[2], a[3], i)
            return ["sq", i, a[2], a[3]]
        if kind == "bs":
            if len(act) < 2:
                return None
            i = act[a[1] % len(act)]
            j = act[a[2] % len(act)]
            if i == j:
                j = act[(act.index(i) + 1) % len(act)]
            t = a[3]
            ph = float(a[4]) if len(a) > 4 else 0.0
            ai, aj = self.model[i], self.model[j]
            self.model[i] = np.cos(t) * ai - np.exp(-1j * ph) * np.sin(t) * aj
            self.model[j] = np.cos(t) * aj + np.exp(1j * ph) * np.sin(t) * ai
            self.ref.BSgate(t, ph, i, j)
            return ["bs", i, j, t, ph]
        if kind == "meas":
            i = act[a[1] % len(act)]
            self.model[i] = 0j
            self.ref.condition_homodyne(0.0, 0.0, i)
            self.measured = True
            return ["meas", i]
        if kind == "invalid":
            self.labels.add("invalid_access")
            return ["invalid", a[1], a[2]]
        raise ValueError(a)

    def _snapshot(self):
        return {"model": dict(self.model), "ever": self.ever, "deleted": list(self.deleted), "did_del": self.did_del, "ref": copy.deepcopy(self.ref),
                "measured": self.measured}

    def _restore(self, sn):
        self.model, self.ever, self.deleted, self.did_del = dict(sn["model"]), sn["ever"], list(sn["deleted"]), sn["did_del"]
        self.ref, self.measured = copy.deepcopy(sn["ref"]), sn["measured"]

    def step(self, a):
        if self.snap is None:
            self.snap = self._snapshot()  # model at the start of the current segment
        if a[0] == "run":
            opts = _run_opts(a)
            fresh = (bool(a[2]) if len(a) > 2 else False) and self.segments >= 1 and not self.has_queue()
            if opts["mode"] == "defer" and fresh:
                opts["mode"] = "plain"
            if opts["mode"] == "optimize":
                # the optimizer may legally move every New in front of every Del of other modes: the simulator then holds all of them at
                # once (6 modes at cutoff 6 = 35 GB as a density matrix).  Only segments whose worst-case ordering stays within MAX_ACTIVE
                n_start = len(self.snap["model"]) if self.snap is not None else len(self.model)
                if n_start + sum(r_[1] for r_ in self.pending if r_[0] == "new") > MAX_ACTIVE:
                    opts["mode"] = "plain"
            if opts["mode"] == "repeat":
                # the same Program object is run twice in a row ("program fragment repetition", Program.can_follow): only for
                # segments that leave the register as they found it
                if fresh or self.has_queue() or any(r_[0] in ("new", "del", "delm") for r_ in self.pending):
                    opts["mode"] = "plain"
                else:
                    for raw in list(self.pending_raw):
                        self.apply_model(raw)  # the active set did not change: positions resolve to the same indices
                    self.labels.add("program_rerun")
                    if any(r_[0] == "meas" for r_ in self.pending):
                        self.labels.add("remeasured")
            self.pending.append(["run", a[1] if len(a) > 1 else None, fresh, opts])
            self.pending_raw = []
            r = self.run_segment()
            self.snap = None
            return r
        r = self.apply_model(a)
        if r is not None:
            self.pending.append(r)
            self.pending_raw.append(a)
        return None

    # ---- engine side -----------------------------------------------------------------------
    def run_segment(self):
        from strawberryfields import ops
        from strawberryfields.program_utils import RegRefError

        seg = self.pending
        self.pending = []
        query = seg[-1][1] if seg and seg[-1][0] == "run" else None
        # fresh: the segment is written as a brand-new Program(number of active modes) instead of Program(previous segment); the engine
        # must either refuse it (register mismatch) or stay consistent with it
        fresh = bool(seg and seg[-1][0] == "run" and seg[-1][2]) and self.segments >= 1 and not self.has_queue()
        opts = seg[-1][3] if seg and seg[-1][0] == "run" and len(seg[-1]) > 3 else _run_opts(["run"])
        mode = opts["mode"]  # plain | repeat (same Program object run twice) | defer (run later, in a list with the next segment) | optimize
        if fresh and mode == "defer":
            mode = "plain"
        fresh_outcomes = {}
        seg = [s for s in seg if s[0] != "run"]
        start_act = sorted(self.snap["model"]) if self.snap is not None else self.active()  # active modes when the segment began
        self.segments += 1
        if self.segments >= 2:
            self.labels.add("second_segment")
        act = self.active()
        sub_pos = None
        if query is not None and act and mode != "defer":
            # backends disagree on whether ``modes`` counts positions among the active modes (fock, gaussian) or register indices
            # (bosonic); while the bosonic engine takes part only values that are valid under both readings are used; labels + data must be consistent
            valid = set(range(len(act)))
            if "bosonic" in self.backends and "bosonic" not in self.dead and self.segments == 1 and mode != "repeat":
                valid &= set(act)
            if opts["ordered"]:
                # the request keeps the drawn order (BaseBackend.state: "the requested modes in the given order")
                sub_pos = []
                for p in query:
                    p = p % (max(act) + 1)
                    if p in valid and p not in sub_pos:
                        sub_pos.append(p)
                sub_pos = sub_pos or None
            else:
                sub_pos = sorted({p % (max(act) + 1) for p in query} & valid) or None
            if sub_pos is not None and self.did_del:
                self.labels.add("subset_query_after_del")
                self.nontrivial = True
            if sub_pos is not None and sub_pos != sorted(sub_pos):
                self.labels.add("query_unsorted")
                rk = [sorted(sub_pos).index(p) for p in sub_pos]
                if any(rk[rk[k_]] != k_ for k_ in range(len(rk))):
                    self.labels.add("query_3cycle")  # a permutation that is not its own inverse
        if mode != "plain":
            self.labels.add("run_mode:" + mode)
        if self.queue and self.has_queue() and mode != "defer":
            self.labels.add("run_list_of_programs")
        if opts["addr"] != "ref":
            self.labels.add("addr:" + opts["addr"])
        if self.did_del and "del_non_last" in self.labels:
            self.nontrivial = True
        for b in self.backends:
            if b in self.dead:
                continue
            if b == "bosonic" and self.segments >= 2:
                continue  # F10 (open): the bosonic engine restarts from vacuum for every program
            if b == "bosonic" and mode in ("repeat", "defer"):
                self.dead.add(b)  # F10 again: more than one run
                continue
            if b == "bosonic" and any(s_[0] == "new" for s_ in seg):
                # F26 (open): the bosonic backend cannot run programs that create modes; verify that it still fails the
                # known way (crash inside the backend) and stop driving it in this history
                self.dead.add(b)
                r26 = self._bosonic_new_probe(seg)
                if r26 is not None:
                    return r26
                continue
            sf = self.sf
            is_fresh = fresh and self.prev[b] is not None
            deferred = None
            if is_fresh:
                prog = sf.Program(max(1, len(self.snap["model"])))
            else:
                prog = sf.Program(self.n0) if self.prev[b] is None else sf.Program(self.prev[b])
            exp_samples = {}  # index -> expected entries of Result.samples_dict for this program (None = value not predicted)
            fock = b.startswith("fock")
            try:
                with prog.context as q:
                    regs = {r.ind: r for r in prog.reg_refs.values()}
                    if not is_fresh and [r.ind for r in q] != start_act:
                        return self.ctx.fail("register.context_tuple.%s" % b, "the register handed out by Program.context holds modes %s, the model's active modes at this point are %s" % ([r.ind for r in q], start_act))
                    addr = "ref" if is_fresh else opts["addr"]

                    def T(i, regs=regs, q=q, addr=addr):
                        """how the program addresses mode i: RegRef object, bare integer index, or element of the context tuple"""
                        if addr == "int":
                            return i
                        if addr == "ctx" and i in start_act:
                            return q[start_act.index(i)]
                        return regs[i]

                    for s in seg:
                        if is_fresh and s[0] in ("del", "coh", "rot", "sq", "bs", "meas", "disp", "loss", "vac", "mz", "s2") and any(i not in regs for i in s[1:(3 if s[0] in ("bs", "mz", "s2") else 2)]):
                            raise _FreshUnbuildable()
                        if is_fresh and s[0] == "scratch" and any(i is not None and i not in regs for i in s[2:4]):
                            raise _FreshUnbuildable()
                        if is_fresh and s[0] == "delm" and any(i not in regs for i in s[1]):
                            raise _FreshUnbuildable()
                        if s[0] == "new":
                            new = ops.New(s[1])
                            got = [r.ind for r in new]
                            if got != s[2] and is_fresh:
                                # a fresh program numbers its own modes; only wrong if the engine then accepts it as a continuation
                                deferred = ("register.new_index_reused_or_skipped", "a fresh Program accepted as continuation handed out indices %s for New(%d); the engine's history expects %s" % (got, s[1], s[2]))
                                for r, i_ in zip(new, s[2]):
                                    regs[i_] = r
                                continue
                            if got != s[2]:
                                return self.ctx.fail("register.new_index_reused_or_skipped", "New(%d) returned indices %s, the model expects %s (indices are allocated consecutively and never reused)" % (s[1], got, s[2]))
                            for r in new:
                                regs[r.ind] = r
                        elif s[0] == "del":
                            ops.Del | T(s[1])
                        elif s[0] == "delm":
                            ops.Del | tuple(T(i_) for i_ in s[1])
                        elif s[0] == "coh":
                            ops.Coherent(amp(s[1])) | T(s[1])
                        elif s[0] == "scratch":
                            self._emit_scratch(ops, s, T, fock, exp_samples)
                        elif s[0] == "rot":
                            ops.Rgate(s[2]) | T(s[1])
                        elif s[0] == "sq":
                            ops.Sgate(s[2], s[3]) | T(s[1])
                        elif s[0] == "disp":
                            ops.Dgate(s[2], s[3]) | T(s[1])
                        elif s[0] == "loss":
                            ops.LossChannel(s[2]) | T(s[1])
                        elif s[0] == "vac":
                            ops.Vacuum() | T(s[1])
                        elif s[0] == "mz":
                            ops.MZgate(s[3], s[4]) | (T(s[1]), T(s[2]))
                        elif s[0] == "s2":
                            ops.S2gate(s[3], s[4]) | (T(s[1]), T(s[2]))
                        elif s[0] == "bs":
                            ops.BSgate(s[3], s[4] if len(s) > 4 else 0.0) | (T(s[1]), T(s[2]))
                        elif s[0] == "meas":
                            ops.MeasureHomodyne(0.0, select=0.0) | T(s[1])
                            exp_samples.setdefault(s[1], []).append(None)
                        elif s[0] == "invalid":
                            before = len(prog.circuit)
                            try:
                                if s[1] == "deleted" and self.deleted:
                                    d = self.deleted[s[2] % len(self.deleted)]
                                    if d in regs and not regs[d].active:
                                        ops.Rgate(0.1) | regs[d]
                                        return self.ctx.fail("register.deleted_mode_accepted", "[%s] a gate on deleted mode %d was accepted" % (b, d))
                                elif s[1] == "duplicate":
                                    a_ = [i for i in regs if regs[i].active]
                                    if a_:
                                        ops.BSgate(0.1, 0.0) | (regs[a_[0]], regs[a_[0]])
                                        return self.ctx.fail("register.duplicate_target_accepted", "[%s] BSgate on (q, q) was accepted" % b)
                                elif s[1] == "foreign":
                                    from strawberryfields.program_utils import RegRef

                                    ops.Rgate(0.1) | RegRef(0)
                                    return self.ctx.fail("register.foreign_regref_accepted", "[%s] a gate on a RegRef that does not belong to the program was accepted" % b)
                                elif s[1] == "unknown_index":
                                    ops.Rgate(0.1) | 97
                                    return self.ctx.fail("register.unknown_index_accepted", "[%s] a gate on index 97 was accepted" % b)
                                elif s[1] == "deleted_int" and self.deleted:
                                    # the deleted mode is named by its bare integer index
                                    d = self.deleted[s[2] % len(self.deleted)]
                                    if d in regs and not regs[d].active:
                                        ops.Dgate(0.1) | d
                                        return self.ctx.fail("register.deleted_mode_accepted", "[%s] a gate on deleted mode %d (addressed by integer) was accepted" % (b, d))
                                elif s[1] == "del_deleted" and self.deleted:
                                    d = self.deleted[s[2] % len(self.deleted)]
                                    if d in regs and not regs[d].active:
                                        ops.Del | (regs[d] if s[2] % 2 else d)
                                        return self.ctx.fail("register.deleted_mode_accepted", "[%s] Del of the already deleted mode %d was accepted" % (b, d))
                                elif s[1] == "stale_ref" and self.prev[b] is not None and not is_fresh:
                                    # a reference that belongs to the previous program segment (same index, still active there)
                                    a_ = [i for i in sorted(regs) if regs[i].active and i in self.prev[b].reg_refs]
                                    if a_:
                                        i_ = a_[s[2] % len(a_)]
                                        ops.Rgate(0.1) | self.prev[b].reg_refs[i_]
                                        return self.ctx.fail("register.foreign_regref_accepted", "[%s] a gate on the previous program's RegRef of mode %d was accepted" % (b, i_))
                            except (RegRefError, IndexError, ValueError):
                                pass
                            if len(prog.circuit) != before:
                                return self.ctx.fail("register.rejected_access_modified_program", "[%s] a rejected access changed the circuit" % b)
            except Violation:
                raise
            except _FreshUnbuildable:
                fresh_outcomes[b] = "rejected"
                continue
            except Exception as exc:  # pylint: disable=broad-except
                return self._crash(b, exc, "build")
            if mode == "defer":
                # built now, executed together with the next segment: engine.run([.., prog, next])
                self.queue[b].append(prog)
                self.prev[b] = prog
                continue
            if self.prev[b] is not None and not self.queue[b]:
                for s in seg:
                    if s[0] == "invalid" and s[1] in ("backend", "backend_negative"):
                        rb = self._backend_probe(b, s[2], negative=s[1] == "backend_negative")
                        if rb is not None:
                            return rb
            try:
                kw = {} if sub_pos is None else {"modes": sub_pos}
                if mode == "optimize":
                    kw["compile_options"] = {"optimize": True}
                progs = self.queue[b] + [prog]
                self.queue[b] = []
                if mode == "repeat":
                    self.eng[b].run(prog)
                res = self.eng[b].run(progs if len(progs) > 1 else prog, **kw)
            except Exception as exc:  # pylint: disable=broad-except
                if is_fresh and isinstance(exc, RuntimeError) and "Register mismatch" in str(exc):
                    fresh_outcomes[b] = "rejected"
                    continue
                r = self._crash(b, exc, "run")
                if r is not None or b in self.dead:
                    continue
                return r
            self.prev[b] = prog
            if is_fresh:
                fresh_outcomes[b] = "accepted"
                if len(set(fresh_outcomes.values())) > 1:
                    return self.ctx.fail("fresh_program.inconsistent", "engines disagree on whether a fresh Program may follow: %s" % fresh_outcomes)
                if deferred is not None:
                    return self.ctx.fail(*deferred)
            # --- invariants
            reg_idx = [r.ind for r in prog.register]
            if reg_idx != act:
                return self.ctx.fail("register.active_set.%s" % b, "Program.register holds %s, the model's active modes are %s" % (reg_idx, act))
            bm = list(self.eng[b].backend.get_modes())
            if bm != act:
                return self.ctx.fail("backend.get_modes.%s" % b, "backend.get_modes() = %s, the model's active modes are %s" % (bm, act))
            st_ = res.state
            pos = list(range(len(act))) if sub_pos is None else sub_pos
            if st_.num_modes != len(pos):
                return self.ctx.fail("state.num_modes.%s" % b, "state has %d modes, expected %d (active %s, query %s)" % (st_.num_modes, len(pos), act, sub_pos))
            names = [st_.mode_names[k] for k in range(st_.num_modes)]
            if sub_pos is None:
                want_idx = act
            else:
                # whichever convention the backend follows, labels and data must belong together: read the labels
                try:
                    want_idx = [int(nm[2:-1]) for nm in names]
                except Exception:  # pylint: disable=broad-except
                    return self.ctx.fail("state.mode_names.%s" % b, "unparsable mode names %s" % names)
                if any(i not in act for i in want_idx) or len(set(want_idx)) != len(want_idx) or (want_idx != sorted(want_idx) and sub_pos == sorted(sub_pos)):
                    return self.ctx.fail("state.mode_names.%s" % b, "subset query %s of active modes %s returned labels %s" % (sub_pos, act, names))
                conv_pos = [act[p] for p in sub_pos]
                conv_raw = list(sub_pos)
                # a request in non-ascending order: in the given order (BaseBackend.state) or ascending (bosonic backend's docstring)
                if want_idx not in (conv_pos, conv_raw, sorted(conv_pos), sorted(conv_raw)):
                    return self.ctx.fail("state.subset_selection.%s" % b, "run(modes=%s) with active modes %s returned modes %s (neither positions nor indices)" % (sub_pos, act, want_idx))
            if names != ["q[%d]" % i for i in want_idx]:
                return self.ctx.fail("state.mode_names.%s" % b, "state labels %s, expected %s" % (names, ["q[%d]" % i for i in want_idx]))
            try:
                got = [self._read_alpha(b, st_, k) for k in range(st_.num_modes)]
            except Exception as exc:  # pylint: disable=broad-except
                from vf.core import crash_signature

                return self.ctx.fail("crash.%s.read_state.%s@%s" % (b, type(exc).__name__, crash_signature(exc)[1]), "reading the returned state (active %s, query %s) raised %s: %s" % (act, sub_pos, type(exc).__name__, str(exc)[:120]))
            if self.flavour == "coherent":
                exp = [self.model[i] for i in want_idx]
                d = max([abs(g - e) for g, e in zip(got, exp)] + [0.0])
                if d > 2e-3:
                    return self.ctx.fail("state.data_under_wrong_label.%s" % b, "modes labelled %s carry amplitudes %s, their indices should carry %s (active %s)" % (want_idx, np.round(got, 3).tolist(), np.round(exp, 3).tolist(), act))
            # measurement records of this program: one entry per measurement, filed under the index of the measured mode
            sd = {int(k_): v_ for k_, v_ in (res.samples_dict or {}).items()}
            if sorted(sd) != sorted(exp_samples) or any(len(sd[k_]) != len(exp_samples[k_]) for k_ in exp_samples):
                return self.ctx.fail("measure.samples_under_wrong_index.%s" % b, "Result.samples_dict has entries %s, the program measured %s" % ({k_: len(v_) for k_, v_ in sorted(sd.items())}, {k_: len(v_) for k_, v_ in sorted(exp_samples.items())}))
            for k_ in sorted(exp_samples):
                for g_, e_ in zip(sd[k_], exp_samples[k_]):
                    if e_ is not None and int(round(float(np.real(np.asarray(g_).ravel()[0])))) != e_:
                        return self.ctx.fail("measure.samples_under_wrong_index.%s" % b, "mode %d was prepared in |%d> and then counted, the record under its index says %s" % (k_, e_, np.asarray(g_).ravel()[:3].tolist()))
            if b in ("gaussian", "bosonic") and want_idx:
                # full first and second moments of the returned modes against the Gaussian model of the history
                mu, V, _ = sfrun.moments_of(st_, b, 2.0)
                rmu, rV = self.ref.reduced(want_idx)
                tol = (1e-8 if not self.measured else 2e-4) * (1 + float(np.max(np.abs(rV))))
                d = max(float(np.max(np.abs(mu - rmu))), float(np.max(np.abs(V - rV))))
                if d > tol:
                    return self.ctx.fail("state.moments_under_wrong_label.%s" % b, "means / covariance of the modes labelled %s differ from the model of this history by %.3g (active %s)" % (want_idx, d, act))
        if fresh and fresh_outcomes:
            if len(set(fresh_outcomes.values())) > 1:
                return self.ctx.fail("fresh_program.inconsistent", "engines disagree on whether a fresh Program may follow: %s" % fresh_outcomes)
            if set(fresh_outcomes.values()) == {"rejected"}:
                self.labels.add("fresh_program_rejected")
                self._restore(self.snap)  # nothing was executed: the model goes back to the start of the segment
            else:
                self.labels.add("fresh_program_accepted")
        if mode != "defer":
            self.ran_deleted, self.ran_ever, self.ran_active = list(self.deleted), self.ever, self.active()
        return None

    def _emit_scratch(self, ops, s, T, fock, exp_samples):
        _, sk, i, j, x, y, k, fin, swap = s
        tg = [t for t in (i, j) if t is not None]
        for t in tg:
            ops.Vacuum() | T(t)
        if sk == "S":
            ops.Sgate(0.2, x) | T(i)
        elif sk == "T":
            ops.Thermal(0.1) | T(i)
        elif sk == "Q":
            ops.Squeezed(0.2, x) | T(i)
        elif sk == "D":
            ops.DisplacedSqueezed(0.2, x, 0.15, y) | T(i)
        elif sk == "K" and fock:
            ops.Kgate(0.6 + 0.2 * np.cos(x)) | T(i)
        elif sk == "V" and fock:
            ops.Vgate(0.05) | T(i)
        elif sk == "F" and fock:
            n_ = 1 + k % 2
            ops.Fock(n_) | T(i)
            ops.MeasureFock() | T(i)
            exp_samples.setdefault(i, []).append(n_)
        elif sk == "S2":
            ops.S2gate(0.15, x) | (T(i), T(j))
        elif sk == "CK" and fock:
            ops.CKgate(0.6 + 0.2 * np.cos(x)) | (T(i), T(j))
        elif sk == "F2" and fock:
            ni, nj = 1 + k % 2, 1 + (k // 2) % 2
            ops.Fock(ni) | T(i)
            ops.Fock(nj) | T(j)
            ops.MeasureFock() | ((T(j), T(i)) if swap else (T(i), T(j)))
            exp_samples.setdefault(i, []).append(ni)
            exp_samples.setdefault(j, []).append(nj)
        # re-preparation: every target gets the amplitude of its own index back
        if fin in ("ket", "dm") and fock:
            order = list(reversed(tg)) if swap else tg
            kets = [_coh_ket(amp(t)) for t in order]
            if fin == "ket":
                arr = kets[0] if len(kets) == 1 else np.einsum("a,b->ab", kets[0], kets[1])
                ops.Ket(arr) | tuple(T(t) for t in order)
            else:
                arr = np.outer(kets[0], kets[0].conj()) if len(kets) == 1 else np.einsum("a,b,c,d->abcd", kets[0], kets[0].conj(), kets[1], kets[1].conj())
                ops.DensityMatrix(arr) | tuple(T(t) for t in order)
        else:
            for t in tg:
                if fin == "dsq":
                    ops.DisplacedSqueezed(amp(t), 0.0, 0.0, 0.0) | T(t)
                else:
                    ops.Coherent(amp(t)) | T(t)

    # documented contract (BaseBackend.begin_circuit): "If the mode is deleted its index becomes invalid. An operation acting on an invalid or
    # unassigned mode index raises an IndexError exception" (the simulators raise ValueError for deleted, IndexError for never-created indices)
    _PROBES = [
        ("rotation", lambda be, d, o: be.rotation(0.3, d)),
        ("displacement", lambda be, d, o: be.displacement(0.2, 0.0, d)),
        ("loss", lambda be, d, o: be.loss(0.5, d)),
        ("squeeze", lambda be, d, o: be.squeeze(0.2, 0.0, d)),
        ("beamsplitter(d, live)", lambda be, d, o: be.beamsplitter(0.3, 0.0, d, o)),
        ("beamsplitter(live, d)", lambda be, d, o: be.beamsplitter(0.3, 0.0, o, d)),
        ("del_mode", lambda be, d, o: be.del_mode(d)),
        ("del_mode([d, live])", lambda be, d, o: be.del_mode([d] if o is None else [d, o])),
        ("prepare_coherent_state", lambda be, d, o: be.prepare_coherent_state(0.3, 0.0, d)),
        ("prepare_vacuum_state", lambda be, d, o: be.prepare_vacuum_state(d)),
        ("prepare_thermal_state", lambda be, d, o: be.prepare_thermal_state(0.2, d)),
        ("measure_homodyne", lambda be, d, o: be.measure_homodyne(0.0, d, select=0.0)),
    ]

    def _backend_probe(self, b, i, negative=False):
        """call the simulator API directly with the index of a deleted / never created mode; it must refuse"""
        be = self.eng[b].backend
        name, call = self._PROBES[i % len(self._PROBES)]
        if negative:
            # AUDIT-FINDING gaussian-negative-index: the gaussian simulator's lists take -1 as "the last mode ever created" and carry the
            # operation out (del_mode(-1) deletes it).  The kind "backend_negative" is understood (out/audit/C08-gaussian-negative-index.json)
            # but no rule of the machine generates it
            d, what = -1 - (i // len(self._PROBES)) % 2, "negative (never assigned)"
        elif (i // len(self._PROBES)) % 2 == 0 and self.ran_deleted:
            d, what = self.ran_deleted[i % len(self.ran_deleted)], "deleted"
        else:
            d, what = self.ran_ever + i % 3, "never created"
        o = self.ran_active[i % len(self.ran_active)] if self.ran_active else None
        if o is None and "live" in name and "del_mode" not in name:
            return None
        self.labels.add("backend_probe:" + what.split()[0])
        try:
            call(be, d, o)
        except (ValueError, IndexError):
            return None
        except Exception as exc:  # pylint: disable=broad-except
            return self._crash(b, exc, "backend_probe")
        return self.ctx.fail("backend.%s.%s" % ("negative_index_accepted" if d < 0 else "invalid_mode_accepted", b), "backend.%s on the %s mode index %d was carried out instead of refused (active modes %s)" % (name, what, d, self.ran_active))

    def _bosonic_new_probe(self, seg):
        from strawberryfields import ops

        sf = self.sf
        prog = sf.Program(self.n0)
        try:
            with prog.context as q:
                regs = {r.ind: r for r in prog.reg_refs.values()}
                for s in seg:
                    if s[0] == "new":
                        for r in ops.New(s[1]):
                            regs[r.ind] = r
                    elif s[0] == "coh":
                        ops.Coherent(amp(s[1])) | regs[s[1]]
                    elif s[0] == "del":
                        ops.Del | regs[s[1]]
                    elif s[0] == "delm":
                        ops.Del | tuple(regs[i_] for i_ in s[1])
            res = sf.Engine("bosonic").run(prog)
            n_expected = len([r for r in prog.register])
            if res.state.num_modes == n_expected:
                return None  # works for this history
            return self.ctx.fail("F26.bosonic_init_circuit_new_modes", "bosonic run of a program with New returned %d modes instead of %d" % (res.state.num_modes, n_expected))
        except Exception as exc:  # pylint: disable=broad-except
            from vf.core import crash_signature

            owner, loc = crash_signature(exc)
            if owner == "repo" and loc and "bosonicbackend" in loc:
                return self.ctx.fail("F26.bosonic_init_circuit_new_modes", "bosonic run of a program with New raised %s in %s" % (type(exc).__name__, loc))
            return self.ctx.fail("crash.bosonic.new.%s@%s" % (type(exc).__name__, loc), str(exc)[:200])

    def _crash(self, b, exc, where):
        from vf.core import crash_signature

        owner, loc = crash_signature(exc)
        if b == "bosonic" and loc and "bosonicbackend/backend.py:init_circuit" in loc:
            self.dead.add(b)
            return self.ctx.fail("F26.bosonic_init_circuit_new_modes", "bosonic init_circuit cannot handle New (as first command / New(k>1)): %s: %s" % (type(exc).__name__, str(exc)[:80]))
        if b == "bosonic" and type(exc).__name__ in ("NotImplementedError",):
            self.dead.add(b)
            return None
        self.dead.add(b)
        return self.ctx.fail("crash.%s.%s.%s@%s" % (b, where, type(exc).__name__, loc), "%s: %s" % (type(exc).__name__, str(exc)[:200]))

    def _read_alpha(self, b, st_, k):
        if b == "gaussian":
            n = st_.num_modes
            m = st_.means()
            return (m[k] + 1j * m[k + n]) / 2
        if b == "bosonic":
            w = np.asarray(st_.weights())
            mu = np.einsum("i,ij->j", w, np.asarray(st_.means()))
            return complex((mu[2 * k] + 1j * mu[2 * k + 1]) / 2)
        x = st_.quad_expectation(k, 0.0)[0]
        p = st_.quad_expectation(k, np.pi / 2)[0]
        return (x + 1j * p) / 2


def check_history(ctx, case):
    w = World(ctx, case["n0"], case.get("flavour", "coherent"))
    hist = list(case["history"])
    if not hist or hist[-1][0] != "run":
        hist.append(["run", None])
    r = None
    for a in hist:
        r = w.step(a)
    if w.has_queue():
        r = w.step(["run", None])  # programs that were built but not yet executed
    ctx.note(case, nontrivial=w.nontrivial, labels=sorted(w.labels))
    return r


def make_machine(ctx):
    class ModesMachine(RuleBasedStateMachine):
        def __init__(self):
            super().__init__()
            self.case = None
            self.world = None

        @initialize(n0=st.sampled_from([1, 2, 2, 3, 3, 4]), flavour=st.sampled_from(["coherent", "coherent", "coherent", "squeezed", "squeezed"]))
        def init(self, n0, flavour):
            if flavour == "coherent" and n0 == 4:
                n0 = 2  # four-mode density matrices are slow: registers that start with four modes are driven on the phase-space backends
            self.case = {"n0": n0, "flavour": flavour, "history": []}
            ctx.begin_case(self.case)
            self.world = World(ctx, n0, flavour)

        def _do(self, a):
            self.case["history"].append(a)
            try:
                self.world.step(a)
            except BaseException:
                self.world.broken = True  # a violation was raised half-way through a segment: teardown must not drive this world any further
                raise

        @rule(k=st.integers(1, 2))
        def new(self, k):
            self._do(["new", k])

        @rule(p=st.integers(0, 5))
        def delete(self, p):
            self._do(["del", p])

        @rule(p=st.integers(0, 5), q=st.integers(0, 5))
        def delete_two(self, p, q):
            self._do(["delm", p, q])

        @precondition(lambda self: self.world is not None and len(self.world.active()) >= 3)
        @rule(p=st.integers(0, 2), gap=st.integers(1, 2))
        def tag_all_then_delete_two_ascending(self, p, gap):
            """every mode carries its own amplitude, then ONE Del on two modes listed in ascending order, then a run"""
            k = len(self.world.active())
            for pos in range(k):
                self._do(["coh", pos])
            lo = p % (k - 1)
            hi = min(k - 1, lo + gap)
            self._do(["delm", lo, hi])
            self._do(["run", None, False])

        @rule(p=st.integers(0, 5), kind=st.sampled_from(["disp", "loss", "vac", "loss"]), r=gen.fl(0.05, 0.3), ph=gen.angle(), T=st.sampled_from([0.5, 0.25, 0.8, 0.0, 1.0]))
        def one_mode_op(self, p, kind, r, ph, T):
            self._do(["disp", p, r, ph] if kind == "disp" else (["loss", p, T] if kind == "loss" else ["vac", p]))

        @rule(p=st.integers(0, 5), q=st.integers(0, 5), kind=st.sampled_from(["mz", "s2"]), a=gen.angle(), b=gen.angle(), r=gen.fl(0.1, 0.5))
        def two_mode_op(self, p, q, kind, a, b, r):
            self._do(["mz", p, q, a, b] if kind == "mz" or self.world.flavour != "squeezed" else ["s2", p, q, r, b])

        @rule(p=st.integers(0, 5))
        def coh(self, p):
            self._do(["coh", p])

        @rule(p=st.integers(0, 5), t=gen.angle())
        def rot(self, p, t):
            self._do(["rot", p, t])

        @rule(p=st.integers(0, 5), q=st.integers(0, 5), t=gen.fl(-1.5, 1.5), ph=st.one_of(st.just(0.0), gen.angle()))
        def bs(self, p, q, t, ph):
            self._do(["bs", p, q, t, ph])

        @precondition(lambda self: self.world is not None and self.world.flavour == "squeezed")
        @rule(p=st.integers(0, 5), r=gen.fl(0.2, 0.8), ph=gen.angle())
        def sq(self, p, r, ph):
            self._do(["sq", p, r, ph])

        # Hypothesis enables a random subset of rules per history (swarm testing): sequences that need three particular rules in order are
        # rare, so the squeeze-mix(-create) sequences are also offered as single rules
        @precondition(lambda self: self.world is not None and self.world.flavour == "squeezed")
        @rule(p=st.integers(0, 5), q=st.integers(0, 5), r=gen.fl(0.2, 0.8), ph=gen.angle(), t=gen.fl(0.3, 1.2), ph2=gen.angle(), k=st.sampled_from([0, 1, 1, 2]))
        def entangle(self, p, q, r, ph, t, ph2, k):
            if k and len(self.world.active()) >= MAX_ACTIVE:
                self._do(["del", p])  # make room for the New that follows
            self._do(["sq", p, r, ph])
            self._do(["bs", p, q, t, ph2])
            if k:
                self._do(["new", k])

        @precondition(lambda self: self.world is not None and len(self.world.active()) >= 2)
        @rule(k=st.integers(1, 2), last=st.booleans())
        def delete_run_then_fresh_program_with_new(self, k, last):
            """the trailing (or first) mode is deleted in one segment; the next segment is written as a brand-new Program and creates a mode"""
            self._do(["del", len(self.world.active()) - 1 if last else 0])
            self._do(["run", None, False])
            self._do(["new", k])
            self._do(["run", None, True])

        @precondition(lambda self: self.world is not None and not self.world.did_del and not self.world.has_queue())
        @rule(p=st.integers(0, 5), t=gen.angle(), k=st.integers(0, 2), addr=st.sampled_from(["ref", "int", "ctx"]))
        def fresh_program_on_a_register_without_deletions(self, p, t, k, addr):
            """nothing was ever deleted: a brand-new Program(n) has the same register as Program(previous) and may follow"""
            self._do(["coh", p])
            self._do(["run", None, False])
            self._do(["rot", p, t])
            if k:
                self._do(["new", k])
            self._do(["run", None, True, {"addr": addr}])

        @rule(p=st.integers(0, 5))
        def meas(self, p):
            self._do(["meas", p])

        @rule(kind=st.sampled_from(["deleted", "duplicate", "foreign", "unknown_index", "deleted_int", "del_deleted", "stale_ref", "backend"]), i=st.integers(0, 47))
        def invalid(self, kind, i):
            self._do(["invalid", kind, i])

        @rule(q=st.one_of(st.none(), st.lists(st.integers(0, 5), min_size=1, max_size=4)), fresh=st.sampled_from([False, False, False, True]),
              ordered=st.booleans(), addr=st.sampled_from(["ref", "int", "ctx"]), mode=st.sampled_from(["plain", "plain", "repeat", "defer", "optimize"]))
        def run(self, q, fresh, ordered, addr, mode):
            self._do(["run", q, fresh, {"ordered": ordered, "addr": addr, "mode": mode}])

        @rule(kind=st.sampled_from(SCRATCH_ONE + SCRATCH_TWO), p=st.integers(0, 5), q=st.integers(0, 5), x=gen.angle(), y=gen.angle(), k=st.integers(0, 3),
              fin=st.sampled_from(FINALS), swap=st.booleans())
        def scratch(self, kind, p, q, x, y, k, fin, swap):
            self._do(["scratch", kind, p, q, x, y, k, fin, swap])

        @precondition(lambda self: self.world is not None and len(self.world.active()) >= 2)
        @rule(kind=st.sampled_from(SCRATCH_ONE + SCRATCH_TWO), lo=st.integers(0, 2), up=st.integers(0, 2), up2=st.integers(0, 2), x=gen.angle(), y=gen.angle(), k=st.integers(0, 3),
              fin=st.sampled_from(FINALS), swap=st.booleans(), addr=st.sampled_from(["ref", "int", "ctx"]), split=st.booleans(), mode=st.sampled_from(["plain", "optimize", "repeat"]))
        def tag_all_delete_low_then_scratch_above(self, kind, lo, up, up2, x, y, k, fin, swap, addr, split, mode):
            """every mode carries its own amplitude, a mode with a lower index is deleted, then an operation outside the usual alphabet acts
            on a mode above the gap (in the same or in the next program), then a run"""
            n = len(self.world.active())
            for pos in range(n):
                self._do(["coh", pos])
            lo = lo % (n - 1)
            self._do(["del", lo])
            if split:
                self._do(["run", None, False])
            n -= 1
            a_ = lo + up % (n - lo)
            b_ = lo + up2 % (n - lo)
            self._do(["scratch", kind, a_, b_, x, y, k, fin, swap])
            self._do(["run", None, False, {"addr": addr, "mode": mode}])

        @rule(perm=st.one_of(st.permutations([0, 1, 2, 3]), st.sampled_from([[1, 2, 0, 3], [2, 0, 1, 3], [1, 2, 3, 0], [3, 0, 1, 2], [3, 1, 2, 0]])),
              mode=st.sampled_from(["plain", "plain", "repeat"]), m=st.integers(0, 3), do_meas=st.booleans())
        def tag_all_then_query_in_permuted_order(self, perm, mode, m, do_meas):
            """run(modes=<positions in any order, incl. cyclic shifts>) of (at least three, if possible) individually tagged modes"""
            n = len(self.world.active())
            if n < 3:
                self._do(["new", 3 - n])
                n = len(self.world.active())
            if n == 0:
                return
            for pos in range(n):
                self._do(["coh", pos])
            if self.world.segments == 0:
                self._do(["run", None, False])  # the bosonic engine (modes = indices, not positions) takes part in the first segment only
            if do_meas:
                self._do(["meas", m])
            self._do(["run", [p_ for p_ in perm if p_ < n], False, {"ordered": True, "mode": mode}])

        @precondition(lambda self: self.world is not None and len(self.world.active()) >= 1)
        @rule(k=st.integers(1, 2), split=st.booleans(), together=st.booleans())
        def delete_every_mode_then_new(self, k, split, together):
            """the register runs empty (state with zero modes), then modes are created again"""
            n = len(self.world.active())
            if together and n == 3:
                self._do(["delm", 0, 2])
                n = 1
            for _ in range(n):
                self._do(["del", 0, 1])
            if split:
                self._do(["run", None, False])
            self._do(["new", k])
            for pos in range(len(self.world.active())):
                self._do(["coh", pos])
            self._do(["run", None, False])

        @rule(n=st.integers(2, 5), p=st.integers(0, 3), run_between=st.booleans())
        def churn(self, n, p, run_between):
            """create / tag / delete in a row: the index counter climbs (two-digit indices) while few modes are alive"""
            for _ in range(n):
                self._do(["new", 1])
                self._do(["coh", len(self.world.active()) - 1])
                self._do(["del", p])
            if run_between:
                self._do(["run", None, False])

        @precondition(lambda self: self.world is not None and self.world.flavour == "coherent")
        @rule(p=st.integers(0, 5), t=gen.angle(), d=st.integers(0, 5), addr=st.sampled_from(["ref", "int", "ctx"]))
        def build_two_programs_then_run_them_as_a_list(self, p, t, d, addr):
            """segment k is only built; segment k+1 = Program(segment k) deletes / creates; both are executed by one engine.run([pk, pk+1])"""
            self._do(["coh", p])
            self._do(["rot", p, t])
            self._do(["run", None, False, {"mode": "defer", "addr": addr}])
            self._do(["del", d])
            self._do(["new", 1])
            self._do(["coh", len(self.world.active()) - 1])
            self._do(["run", None, False, {"mode": "plain", "addr": addr}])

        @precondition(lambda self: self.world is not None and self.world.segments >= 1 and self.world.did_del)
        @rule(i=st.integers(0, 47), j=st.integers(0, 47))
        def backend_level_access_to_dead_index(self, i, j):
            self._do(["invalid", "backend", i])
            self._do(["invalid", "backend", j])
            self._do(["run", None, False])

        def teardown(self):
            if self.world is not None:
                if (self.world.pending or self.world.has_queue()) and not self.world.broken:
                    self._do(["run", None])
                ctx.note(self.case, nontrivial=self.world.nontrivial, labels=sorted(self.world.labels))

    return ModesMachine


SUBS = [
    Sub("modes_machine", check=check_history, machine=make_machine, examples={"quick": 50, "thorough": 500}, steps={"quick": 18, "thorough": 24},
        shards={"quick": 6, "thorough": 16},
        budget={"quick": 400, "thorough": 1500},  # wall-clock per shard; a shard needs ~40 s on an idle machine, the default 150 s is hit when the host is overloaded
        rule="rule-based machine over New/Del/prepare/gates/measure/invalid access/run with subset queries, 4 engines in lock-step"),
]

MANIFEST = {
    "technique": "Hypothesis stateful (rule-based) machine; model-based oracle: index -> coherent amplitude plus a full Gaussian (refsim) model of every index; engines of all backends in lock-step",
    "note": ("trusted: vf/refsim.py (Gaussian reference), numpy; Hypothesis for generation.  Besides the frontend (Program / Engine) the simulator API is "
             "called directly with deleted / never created indices (BaseBackend.begin_circuit docstring)."),
    "text": ("Generated histories of mode creation, deletion, use and measurement over consecutive programs are executed on one engine per "
             "backend and on a model that knows which amplitude every mode index carries; after every segment the program register (also the "
             "tuple handed out by Program.context), backend.get_modes(), the number, labels and per-mode data of the returned state (full or any "
             "ordered subset) and the measurement records must agree with the model, indices are never reused, and invalid accesses (frontend "
             "and simulator API) are rejected without side effects.  Segments are addressed by RegRef / integer / context tuple, run once, "
             "twice, optimized, or as a list of programs; registers start with 1-4 modes, may run empty and reach two-digit indices."),
}
