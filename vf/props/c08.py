"""C08 - register and simulator agree on which modes exist, for every history.

Stateful (rule-based) machine.  A history is a JSON list of actions; engines of several backends are driven in lock-step
against a model {index -> coherent amplitude}.  Every mode is prepared with an amplitude that depends on its index, and only
product-coherent-state-preserving operations are used (rotations, beamsplitters, re-preparation, deletion, post-selected
homodyne), so the model knows exactly which amplitude every *index* must carry after any history: mislabelled or shuffled
modes become visible in the returned state.
"""
from __future__ import annotations

import numpy as np
from hypothesis import strategies as st
from hypothesis.stateful import RuleBasedStateMachine, initialize, precondition, rule

import copy

from vf import gen, refsim, sfrun
from vf.core import Sub, Violation

RULE = ("histories of <= 24 actions {New(k), Del, Coherent(amp(index)), Rgate, BSgate(theta, phi), MeasureHomodyne(select), invalid access "
        "(deleted / foreign / duplicate target), run segment [optionally querying a subset; optionally written as a brand-new Program instead of "
        "Program(previous)]} over consecutive Program segments on one engine per backend (gaussian, fock pure, fock mixed; bosonic for "
        "single-segment histories), <= 6 indices ever, <= 4 active; flavour 'squeezed' adds Sgate and drives the phase-space backends only; "
        "non-trivial = a Del of a non-last mode followed by a state query, or a New after a Del")
ASSUMPTIONS = [
    "amplitudes are read from the returned state (means / quad_expectation) with tolerance 2e-3 (Fock cutoff 6, |alpha| <= 0.52)",
    "gaussian / bosonic: full means and covariance of the returned modes vs refsim of the history, 1e-8 (2e-4 after a post-selected homodyne: eps-POVM)",
    "a segment written as a fresh Program(k): the engine may refuse it (RuntimeError 'Register mismatch', the model is rolled back) or accept it; "
    "if accepted every invariant must hold, including consecutive never-reused indices",
    "bosonic engine: every Program restarts the simulator (finding F10, open) - bosonic is driven only through the first segment of a history",
    "run(modes=subset): subset refers to positions in the list of active modes for fock/gaussian (observed, consistent with mode_names); the "
    "check demands that the returned labels and data belong together, whichever convention the backend uses",
    "TensorFlow backend not exercised (not installed)",
]
REQUIRED_LABELS = {"all": ["del_first_mode", "new_multi", "second_segment", "invalid_access", "new_after_del", "subset_query_after_del",
                           "flavour:squeezed", "new_with_correlated_modes", "fresh_program_rejected", "fresh_program_accepted", "del_two_modes_at_once"]}

BACKENDS = ["gaussian", "fock_pure", "fock_mixed", "bosonic"]
CUTOFF = 6
MAX_EVER, MAX_ACTIVE = 6, 4


def amp(i):
    return 0.12 + 0.08 * i


class _FreshUnbuildable(Exception):
    """a segment written against a brand-new Program refers to an index that program does not have"""


class World:
    """interprets a history on the model and on the engines"""

    def __init__(self, ctx, n0, flavour="coherent"):
        import strawberryfields as sf

        self.sf = sf
        self.ctx = ctx
        self.n0 = n0
        self.flavour = flavour  # "coherent": product coherent states on all backends; "squeezed": squeezers and complex beamsplitters, phase-space backends
        self.ref = refsim.Ref(MAX_EVER, 2.0)  # full Gaussian model: index i <-> reference mode i (never-created / deleted indices are vacuum)
        self.measured = False
        self.snap = None
        self.model = {i: 0j for i in range(n0)}  # active index -> amplitude
        self.ever = n0
        self.deleted = []
        self.pending = []  # actions of the current segment
        self.segments = 0
        self.labels = set()
        self.eng = {}
        self.prev = {}
        self.backends = BACKENDS if flavour == "coherent" else ["gaussian", "bosonic"]
        self.labels.add("flavour:" + flavour)
        for b in self.backends:
            opts = {"cutoff_dim": CUTOFF, "pure": b == "fock_pure"} if b.startswith("fock") else {}
            self.eng[b] = sf.Engine(b.split("_")[0], backend_options=opts)
            self.prev[b] = None
        self.dead = set()
        self.did_del = False
        self.nontrivial = False

    # ---- model side ------------------------------------------------------------------------
    def active(self):
        return sorted(self.model)

    def apply_model(self, a):
        """returns the resolved action (positions -> indices) or None if not applicable"""
        act = self.active()
        kind = a[0]
        if kind == "new":
            k = min(a[1], MAX_EVER - self.ever, MAX_ACTIVE - len(act))
            if k < 1:
                return None
            idx = list(range(self.ever, self.ever + k))
            for i in idx:
                self.model[i] = 0j
            self.ever += k
            if len(act) >= 2:
                sub = [i for i in act]
                V = self.ref.reduced(sub)[1]
                m = len(sub)
                off = np.array([[0.0 if a_ % m == b_ % m else V[a_, b_] for b_ in range(2 * m)] for a_ in range(2 * m)])
                if float(np.max(np.abs(off))) > 1e-3:
                    self.labels.add("new_with_correlated_modes")
            if k > 1:
                self.labels.add("new_multi")
            if self.did_del:
                self.labels.add("new_after_del")
                self.nontrivial = True
            return ["new", k, idx]
        if kind == "del":
            if len(act) < 2:
                return None
            i = act[a[1] % len(act)]
            if i == act[0]:
                self.labels.add("del_first_mode")
            if i != act[-1]:
                self.labels.add("del_non_last")
            del self.model[i]
            self.deleted.append(i)
            self.did_del = True
            self.ref.trace_out_to_vacuum(i)
            return ["del", i]
        if kind == "delm":
            # one Del command on two modes, listed in the given (possibly ascending) order
            if len(act) < 3:
                return None
            i = act[a[1] % len(act)]
            j = act[a[2] % len(act)]
            if i == j:
                j = act[(act.index(i) + 1) % len(act)]
            for x in (i, j):
                del self.model[x]
                self.deleted.append(x)
                self.ref.trace_out_to_vacuum(x)
            self.did_del = True
            self.labels.add("del_two_modes_at_once")
            if min(i, j) != act[-1] and max(i, j) != act[-1] or True:
                self.labels.add("del_non_last")
            return ["delm", [i, j]]
        if not act:
            return None
        if kind == "coh":
            i = act[a[1] % len(act)]
            self.model[i] = complex(amp(i))
            self.ref.Coherent(amp(i), 0.0, i)
            return ["coh", i]
        if kind == "rot":
            i = act[a[1] % len(act)]
            self.model[i] *= np.exp(1j * a[2])
            self.ref.Rgate(a[2], i)
            return ["rot", i, a[2]]
        if kind == "disp":
            i = act[a[1] % len(act)]
            self.model[i] += a[2] * np.exp(1j * a[3])
            self.ref.Dgate(a[2], a[3], i)
            return ["disp", i, a[2], a[3]]
        if kind == "loss":
            i = act[a[1] % len(act)]
            self.model[i] *= np.sqrt(a[2])
            self.ref.LossChannel(a[2], i)
            return ["loss", i, a[2]]
        if kind == "vac":
            i = act[a[1] % len(act)]
            self.model[i] = 0j
            self.ref.Vacuum(i)
            return ["vac", i]
        if kind == "mz":
            if len(act) < 2:
                return None
            i = act[a[1] % len(act)]
            j = act[a[2] % len(act)]
            if i == j:
                j = act[(act.index(i) + 1) % len(act)]
            U = refsim.mz_unitary(a[3], a[4])
            ai, aj = self.model[i], self.model[j]
            self.model[i], self.model[j] = U[0, 0] * ai + U[0, 1] * aj, U[1, 0] * ai + U[1, 1] * aj
            self.ref.MZgate(a[3], a[4], i, j)
            return ["mz", i, j, a[3], a[4]]
        if kind == "s2":
            if self.flavour != "squeezed" or len(act) < 2:
                return None
            i = act[a[1] % len(act)]
            j = act[a[2] % len(act)]
            if i == j:
                j = act[(act.index(i) + 1) % len(act)]
            self.ref.S2gate(a[3], a[4], i, j)
            return ["s2", i, j, a[3], a[4]]
        if kind == "sq":
            if self.flavour != "squeezed":
                return None
            i = act[a[1] % len(act)]
            self.ref.Sgate(a[2], a[3], i)
            return ["sq", i, a[2], a[3]]
        if kind == "bs":
            if len(act) < 2:
                return None
            i = act[a[1] % len(act)]
            j = act[a[2] % len(act)]
            if i == j:
                j = act[(act.index(i) + 1) % len(act)]
            t = a[3]
            ph = float(a[4]) if len(a) > 4 else 0.0
            ai, aj = self.model[i], self.model[j]
            self.model[i] = np.cos(t) * ai - np.exp(-1j * ph) * np.sin(t) * aj
            self.model[j] = np.cos(t) * aj + np.exp(1j * ph) * np.sin(t) * ai
            self.ref.BSgate(t, ph, i, j)
            return ["bs", i, j, t, ph]
        if kind == "meas":
            i = act[a[1] % len(act)]
            self.model[i] = 0j
            self.ref.condition_homodyne(0.0, 0.0, i)
            self.measured = True
            return ["meas", i]
        if kind == "invalid":
            self.labels.add("invalid_access")
            return ["invalid", a[1], a[2]]
        raise ValueError(a)

    def _snapshot(self):
        return {"model": dict(self.model), "ever": self.ever, "deleted": list(self.deleted), "did_del": self.did_del, "ref": copy.deepcopy(self.ref),
                "measured": self.measured}

    def _restore(self, sn):
        self.model, self.ever, self.deleted, self.did_del = dict(sn["model"]), sn["ever"], list(sn["deleted"]), sn["did_del"]
        self.ref, self.measured = copy.deepcopy(sn["ref"]), sn["measured"]

    def step(self, a):
        if self.snap is None:
            self.snap = self._snapshot()  # model at the start of the current segment
        if a[0] == "run":
            self.pending.append(["run", a[1] if len(a) > 1 else None, bool(a[2]) if len(a) > 2 else False])
            r = self.run_segment()
            self.snap = None
            return r
        r = self.apply_model(a)
        if r is not None:
            self.pending.append(r)
        return None

    # ---- engine side -----------------------------------------------------------------------
    def run_segment(self):
        from strawberryfields import ops
        from strawberryfields.program_utils import RegRefError

        seg = self.pending
        self.pending = []
        query = seg[-1][1] if seg and seg[-1][0] == "run" else None
        # fresh: the segment is written as a brand-new Program(number of active modes) instead of Program(previous segment); the engine
        # must either refuse it (register mismatch) or stay consistent with it
        fresh = bool(seg and seg[-1][0] == "run" and seg[-1][2]) and self.segments >= 1
        fresh_outcomes = {}
        seg = [s for s in seg if s[0] != "run"]
        self.segments += 1
        if self.segments >= 2:
            self.labels.add("second_segment")
        act = self.active()
        sub_pos = None
        if query is not None and act:
            # backends disagree on whether ``modes`` counts positions among the active modes (fock, gaussian) or register indices
            # (bosonic); only values that are valid under both readings are used, and labels + data must be consistent
            sub_pos = sorted({p % (max(act) + 1) for p in query} & set(range(len(act))) & set(act)) or None
            if sub_pos is not None and self.did_del:
                self.labels.add("subset_query_after_del")
                self.nontrivial = True
        if self.did_del and "del_non_last" in self.labels:
            self.nontrivial = True
        for b in self.backends:
            if b in self.dead:
                continue
            if b == "bosonic" and self.segments >= 2:
                continue  # F10 (open): the bosonic engine restarts from vacuum for every program
            if b == "bosonic" and any(s_[0] == "new" for s_ in seg):
                # F26 (open): the bosonic backend cannot run programs that create modes; verify that it still fails the
                # known way (crash inside the backend) and stop driving it in this history
                self.dead.add(b)
                r26 = self._bosonic_new_probe(seg)
                if r26 is not None:
                    return r26
                continue
            sf = self.sf
            is_fresh = fresh and self.prev[b] is not None
            deferred = None
            if is_fresh:
                prog = sf.Program(max(1, len(self.snap["model"])))
            else:
                prog = sf.Program(self.n0) if self.prev[b] is None else sf.Program(self.prev[b])
            try:
                with prog.context as q:
                    regs = {r.ind: r for r in prog.reg_refs.values()}
                    for s in seg:
                        if is_fresh and s[0] in ("del", "coh", "rot", "sq", "bs", "meas", "disp", "loss", "vac", "mz", "s2") and any(i not in regs for i in s[1:(3 if s[0] in ("bs", "mz", "s2") else 2)]):
                            raise _FreshUnbuildable()
                        if is_fresh and s[0] == "delm" and any(i not in regs for i in s[1]):
                            raise _FreshUnbuildable()
                        if s[0] == "new":
                            new = ops.New(s[1])
                            got = [r.ind for r in new]
                            if got != s[2] and is_fresh:
                                # a fresh program numbers its own modes; only wrong if the engine then accepts it as a continuation
                                deferred = ("register.new_index_reused_or_skipped", "a fresh Program accepted as continuation handed out indices %s for New(%d); the engine's history expects %s" % (got, s[1], s[2]))
                                for r, i_ in zip(new, s[2]):
                                    regs[i_] = r
                                continue
                            if got != s[2]:
                                return self.ctx.fail("register.new_index_reused_or_skipped", "New(%d) returned indices %s, the model expects %s (indices are allocated consecutively and never reused)" % (s[1], got, s[2]))
                            for r in new:
                                regs[r.ind] = r
                        elif s[0] == "del":
                            ops.Del | regs[s[1]]
                        elif s[0] == "delm":
                            ops.Del | tuple(regs[i_] for i_ in s[1])
                        elif s[0] == "coh":
                            ops.Coherent(amp(s[1])) | regs[s[1]]
                        elif s[0] == "rot":
                            ops.Rgate(s[2]) | regs[s[1]]
                        elif s[0] == "sq":
                            ops.Sgate(s[2], s[3]) | regs[s[1]]
                        elif s[0] == "disp":
                            ops.Dgate(s[2], s[3]) | regs[s[1]]
                        elif s[0] == "loss":
                            ops.LossChannel(s[2]) | regs[s[1]]
                        elif s[0] == "vac":
                            ops.Vacuum() | regs[s[1]]
                        elif s[0] == "mz":
                            ops.MZgate(s[3], s[4]) | (regs[s[1]], regs[s[2]])
                        elif s[0] == "s2":
                            ops.S2gate(s[3], s[4]) | (regs[s[1]], regs[s[2]])
                        elif s[0] == "bs":
                            ops.BSgate(s[3], s[4] if len(s) > 4 else 0.0) | (regs[s[1]], regs[s[2]])
                        elif s[0] == "meas":
                            ops.MeasureHomodyne(0.0, select=0.0) | regs[s[1]]
                        elif s[0] == "invalid":
                            before = len(prog.circuit)
                            try:
                                if s[1] == "deleted" and self.deleted:
                                    d = self.deleted[s[2] % len(self.deleted)]
                                    if d in regs and not regs[d].active:
                                        ops.Rgate(0.1) | regs[d]
                                        return self.ctx.fail("register.deleted_mode_accepted", "[%s] a gate on deleted mode %d was accepted" % (b, d))
                                elif s[1] == "duplicate":
                                    a_ = [i for i in regs if regs[i].active]
                                    if a_:
                                        ops.BSgate(0.1, 0.0) | (regs[a_[0]], regs[a_[0]])
                                        return self.ctx.fail("register.duplicate_target_accepted", "[%s] BSgate on (q, q) was accepted" % b)
                                elif s[1] == "foreign":
                                    from strawberryfields.program_utils import RegRef

                                    ops.Rgate(0.1) | RegRef(0)
                                    return self.ctx.fail("register.foreign_regref_accepted", "[%s] a gate on a RegRef that does not belong to the program was accepted" % b)
                                elif s[1] == "unknown_index":
                                    ops.Rgate(0.1) | 97
                                    return self.ctx.fail("register.unknown_index_accepted", "[%s] a gate on index 97 was accepted" % b)
                            except (RegRefError, IndexError, ValueError):
                                pass
                            if len(prog.circuit) != before:
                                return self.ctx.fail("register.rejected_access_modified_program", "[%s] a rejected access changed the circuit" % b)
            except Violation:
                raise
            except _FreshUnbuildable:
                fresh_outcomes[b] = "rejected"
                continue
            except Exception as exc:  # pylint: disable=broad-except
                return self._crash(b, exc, "build")
            try:
                kw = {} if sub_pos is None else {"modes": sub_pos}
                res = self.eng[b].run(prog, **kw)
            except Exception as exc:  # pylint: disable=broad-except
                if is_fresh and isinstance(exc, RuntimeError) and "Register mismatch" in str(exc):
                    fresh_outcomes[b] = "rejected"
                    continue
                r = self._crash(b, exc, "run")
                if r is not None or b in self.dead:
                    continue
                return r
            self.prev[b] = prog
            if is_fresh:
                fresh_outcomes[b] = "accepted"
                if len(set(fresh_outcomes.values())) > 1:
                    return self.ctx.fail("fresh_program.inconsistent", "engines disagree on whether a fresh Program may follow: %s" % fresh_outcomes)
                if deferred is not None:
                    return self.ctx.fail(*deferred)
            # --- invariants
            reg_idx = [r.ind for r in prog.register]
            if reg_idx != act:
                return self.ctx.fail("register.active_set.%s" % b, "Program.register holds %s, the model's active modes are %s" % (reg_idx, act))
            bm = list(self.eng[b].backend.get_modes())
            if bm != act:
                return self.ctx.fail("backend.get_modes.%s" % b, "backend.get_modes() = %s, the model's active modes are %s" % (bm, act))
            st_ = res.state
            pos = list(range(len(act))) if sub_pos is None else sub_pos
            if st_.num_modes != len(pos):
                return self.ctx.fail("state.num_modes.%s" % b, "state has %d modes, expected %d (active %s, query %s)" % (st_.num_modes, len(pos), act, sub_pos))
            names = [st_.mode_names[k] for k in range(st_.num_modes)]
            if sub_pos is None:
                want_idx = act
            else:
                # whichever convention the backend follows, labels and data must belong together: read the labels
                try:
                    want_idx = [int(nm[2:-1]) for nm in names]
                except Exception:  # pylint: disable=broad-except
                    return self.ctx.fail("state.mode_names.%s" % b, "unparsable mode names %s" % names)
                if any(i not in act for i in want_idx) or want_idx != sorted(want_idx) or len(set(want_idx)) != len(want_idx):
                    return self.ctx.fail("state.mode_names.%s" % b, "subset query %s of active modes %s returned labels %s" % (sub_pos, act, names))
                conv_pos = [act[p] for p in sub_pos]
                conv_raw = list(sub_pos)
                if want_idx != conv_pos and want_idx != conv_raw:
                    return self.ctx.fail("state.subset_selection.%s" % b, "run(modes=%s) with active modes %s returned modes %s (neither positions nor indices)" % (sub_pos, act, want_idx))
            if names != ["q[%d]" % i for i in want_idx]:
                return self.ctx.fail("state.mode_names.%s" % b, "state labels %s, expected %s" % (names, ["q[%d]" % i for i in want_idx]))
            try:
                got = [self._read_alpha(b, st_, k) for k in range(st_.num_modes)]
            except Exception as exc:  # pylint: disable=broad-except
                from vf.core import crash_signature

                return self.ctx.fail("crash.%s.read_state.%s@%s" % (b, type(exc).__name__, crash_signature(exc)[1]), "reading the returned state (active %s, query %s) raised %s: %s" % (act, sub_pos, type(exc).__name__, str(exc)[:120]))
            if self.flavour == "coherent":
                exp = [self.model[i] for i in want_idx]
                d = max([abs(g - e) for g, e in zip(got, exp)] + [0.0])
                if d > 2e-3:
                    return self.ctx.fail("state.data_under_wrong_label.%s" % b, "modes labelled %s carry amplitudes %s, their indices should carry %s (active %s)" % (want_idx, np.round(got, 3).tolist(), np.round(exp, 3).tolist(), act))
            if b in ("gaussian", "bosonic"):
                # full first and second moments of the returned modes against the Gaussian model of the history
                mu, V, _ = sfrun.moments_of(st_, b, 2.0)
                rmu, rV = self.ref.reduced(want_idx)
                tol = (1e-8 if not self.measured else 2e-4) * (1 + float(np.max(np.abs(rV))))
                d = max(float(np.max(np.abs(mu - rmu))), float(np.max(np.abs(V - rV))))
                if d > tol:
                    return self.ctx.fail("state.moments_under_wrong_label.%s" % b, "means / covariance of the modes labelled %s differ from the model of this history by %.3g (active %s)" % (want_idx, d, act))
        if fresh and fresh_outcomes:
            if len(set(fresh_outcomes.values())) > 1:
                return self.ctx.fail("fresh_program.inconsistent", "engines disagree on whether a fresh Program may follow: %s" % fresh_outcomes)
            if set(fresh_outcomes.values()) == {"rejected"}:
                self.labels.add("fresh_program_rejected")
                self._restore(self.snap)  # nothing was executed: the model goes back to the start of the segment
            else:
                self.labels.add("fresh_program_accepted")
        return None

    def _bosonic_new_probe(self, seg):
        from strawberryfields import ops

        sf = self.sf
        prog = sf.Program(self.n0)
        try:
            with prog.context as q:
                regs = {r.ind: r for r in prog.reg_refs.values()}
                for s in seg:
                    if s[0] == "new":
                        for r in ops.New(s[1]):
                            regs[r.ind] = r
                    elif s[0] == "coh":
                        ops.Coherent(amp(s[1])) | regs[s[1]]
                    elif s[0] == "del":
                        ops.Del | regs[s[1]]
                    elif s[0] == "delm":
                        ops.Del | tuple(regs[i_] for i_ in s[1])
            res = sf.Engine("bosonic").run(prog)
            n_expected = len([r for r in prog.register])
            if res.state.num_modes == n_expected:
                return None  # works for this history
            return self.ctx.fail("F26.bosonic_init_circuit_new_modes", "bosonic run of a program with New returned %d modes instead of %d" % (res.state.num_modes, n_expected))
        except Exception as exc:  # pylint: disable=broad-except
            from vf.core import crash_signature

            owner, loc = crash_signature(exc)
            if owner == "repo" and loc and "bosonicbackend" in loc:
                return self.ctx.fail("F26.bosonic_init_circuit_new_modes", "bosonic run of a program with New raised %s in %s" % (type(exc).__name__, loc))
            return self.ctx.fail("crash.bosonic.new.%s@%s" % (type(exc).__name__, loc), str(exc)[:200])

    def _crash(self, b, exc, where):
        from vf.core import crash_signature

        owner, loc = crash_signature(exc)
        if b == "bosonic" and loc and "bosonicbackend/backend.py:init_circuit" in loc:
            self.dead.add(b)
            return self.ctx.fail("F26.bosonic_init_circuit_new_modes", "bosonic init_circuit cannot handle New (as first command / New(k>1)): %s: %s" % (type(exc).__name__, str(exc)[:80]))
        if b == "bosonic" and type(exc).__name__ in ("NotImplementedError",):
            self.dead.add(b)
            return None
        self.dead.add(b)
        return self.ctx.fail("crash.%s.%s.%s@%s" % (b, where, type(exc).__name__, loc), "%s: %s" % (type(exc).__name__, str(exc)[:200]))

    def _read_alpha(self, b, st_, k):
        if b == "gaussian":
            n = st_.num_modes
            m = st_.means()
            return (m[k] + 1j * m[k + n]) / 2
        if b == "bosonic":
            w = np.asarray(st_.weights())
            mu = np.einsum("i,ij->j", w, np.asarray(st_.means()))
            return complex((mu[2 * k] + 1j * mu[2 * k + 1]) / 2)
        x = st_.quad_expectation(k, 0.0)[0]
        p = st_.quad_expectation(k, np.pi / 2)[0]
        return (x + 1j * p) / 2


def check_history(ctx, case):
    w = World(ctx, case["n0"], case.get("flavour", "coherent"))
    hist = list(case["history"])
    if not hist or hist[-1][0] != "run":
        hist.append(["run", None])
    r = None
    for a in hist:
        r = w.step(a)
    ctx.note(case, nontrivial=w.nontrivial, labels=sorted(w.labels))
    return r


def make_machine(ctx):
    class ModesMachine(RuleBasedStateMachine):
        def __init__(self):
            super().__init__()
            self.case = None
            self.world = None

        @initialize(n0=st.integers(1, 2), flavour=st.sampled_from(["coherent", "coherent", "squeezed"]))
        def init(self, n0, flavour):
            self.case = {"n0": n0, "flavour": flavour, "history": []}
            ctx.begin_case(self.case)
            self.world = World(ctx, n0, flavour)

        def _do(self, a):
            self.case["history"].append(a)
            self.world.step(a)

        @rule(k=st.integers(1, 2))
        def new(self, k):
            self._do(["new", k])

        @rule(p=st.integers(0, 5))
        def delete(self, p):
            self._do(["del", p])

        @rule(p=st.integers(0, 5), q=st.integers(0, 5))
        def delete_two(self, p, q):
            self._do(["delm", p, q])

        @precondition(lambda self: self.world is not None and len(self.world.active()) >= 3)
        @rule(p=st.integers(0, 2), gap=st.integers(1, 2))
        def tag_all_then_delete_two_ascending(self, p, gap):
            """every mode carries its own amplitude, then ONE Del on two modes listed in ascending order, then a run"""
            k = len(self.world.active())
            for pos in range(k):
                self._do(["coh", pos])
            lo = p % (k - 1)
            hi = min(k - 1, lo + gap)
            self._do(["delm", lo, hi])
            self._do(["run", None, False])

        @rule(p=st.integers(0, 5), kind=st.sampled_from(["disp", "loss", "vac", "loss"]), r=gen.fl(0.05, 0.3), ph=gen.angle(), T=st.sampled_from([0.5, 0.25, 0.8, 0.0, 1.0]))
        def one_mode_op(self, p, kind, r, ph, T):
            self._do(["disp", p, r, ph] if kind == "disp" else (["loss", p, T] if kind == "loss" else ["vac", p]))

        @rule(p=st.integers(0, 5), q=st.integers(0, 5), kind=st.sampled_from(["mz", "s2"]), a=gen.angle(), b=gen.angle(), r=gen.fl(0.1, 0.5))
        def two_mode_op(self, p, q, kind, a, b, r):
            self._do(["mz", p, q, a, b] if kind == "mz" or self.world.flavour != "squeezed" else ["s2", p, q, r, b])

        @rule(p=st.integers(0, 5))
        def coh(self, p):
            self._do(["coh", p])

        @rule(p=st.integers(0, 5), t=gen.angle())
        def rot(self, p, t):
            self._do(["rot", p, t])

        @rule(p=st.integers(0, 5), q=st.integers(0, 5), t=gen.fl(-1.5, 1.5), ph=st.one_of(st.just(0.0), gen.angle()))
        def bs(self, p, q, t, ph):
            self._do(["bs", p, q, t, ph])

        @precondition(lambda self: self.world is not None and self.world.flavour == "squeezed")
        @rule(p=st.integers(0, 5), r=gen.fl(0.2, 0.8), ph=gen.angle())
        def sq(self, p, r, ph):
            self._do(["sq", p, r, ph])

        # Hypothesis enables a random subset of rules per history (swarm testing): sequences that need three particular rules in order are
        # rare, so the squeeze-mix(-create) sequences are also offered as single rules
        @precondition(lambda self: self.world is not None and self.world.flavour == "squeezed")
        @rule(p=st.integers(0, 5), q=st.integers(0, 5), r=gen.fl(0.2, 0.8), ph=gen.angle(), t=gen.fl(0.3, 1.2), ph2=gen.angle(), k=st.integers(0, 2))
        def entangle(self, p, q, r, ph, t, ph2, k):
            self._do(["sq", p, r, ph])
            self._do(["bs", p, q, t, ph2])
            if k:
                self._do(["new", k])

        @precondition(lambda self: self.world is not None and len(self.world.active()) >= 2)
        @rule(k=st.integers(1, 2), last=st.booleans())
        def delete_run_then_fresh_program_with_new(self, k, last):
            """the trailing (or first) mode is deleted in one segment; the next segment is written as a brand-new Program and creates a mode"""
            self._do(["del", len(self.world.active()) - 1 if last else 0])
            self._do(["run", None, False])
            self._do(["new", k])
            self._do(["run", None, True])

        @rule(p=st.integers(0, 5))
        def meas(self, p):
            self._do(["meas", p])

        @rule(kind=st.sampled_from(["deleted", "duplicate", "foreign", "unknown_index"]), i=st.integers(0, 5))
        def invalid(self, kind, i):
            self._do(["invalid", kind, i])

        @rule(q=st.one_of(st.none(), st.lists(st.integers(0, 5), min_size=1, max_size=3)), fresh=st.sampled_from([False, False, False, True]))
        def run(self, q, fresh):
            self._do(["run", q, fresh])

        def teardown(self):
            if self.world is not None:
                if self.world.pending:
                    self._do(["run", None])
                ctx.note(self.case, nontrivial=self.world.nontrivial, labels=sorted(self.world.labels))

    return ModesMachine


SUBS = [
    Sub("modes_machine", check=check_history, machine=make_machine, examples={"quick": 60, "thorough": 500}, steps={"quick": 18, "thorough": 24},
        shards={"quick": 5, "thorough": 16}, rule="rule-based machine over New/Del/prepare/gates/measure/invalid access/run with subset queries, 4 engines in lock-step"),
]

MANIFEST = {
    "technique": "Hypothesis stateful (rule-based) machine; model-based oracle: index -> coherent amplitude plus a full Gaussian (refsim) model of every index; engines of all backends in lock-step",
    "text": ("Generated histories of mode creation, deletion, use and measurement over consecutive programs are executed on one engine per "
             "backend and on a model that knows which amplitude every mode index carries; after every segment the program register, "
             "backend.get_modes(), the number, labels and per-mode data of the returned state must agree with the model, indices are never "
             "reused, and invalid accesses are rejected without side effects."),
}
