"""C07 - every simulated state is physical; gates conserve what they must.

Validity predicates evaluated after EVERY prefix of a generated program (each prefix is its own program on a
fresh engine), plus step relations between consecutive prefixes (unitary -> purity, passive -> total photon
number, loss -> n' = T n, trace only lost through truncation).  No reference simulator is involved.
"""
from __future__ import annotations

import numpy as np
from hypothesis import strategies as st

from vf import fockref, gen, refsim, sfrun
from vf.core import Sub
from vf.props import c01

RULE = ("programs from the C01 generators (phase space: 1..4 modes over the Gaussian alphabet incl. thermal loss; Fock: "
        "bounded-photon Fock/Ket preparations then gates/channels, 1..3 modes, pure and mixed), every prefix checked; "
        "non-trivial = >=3 commands on >=2 modes with at least one non-passive and one two-mode operation")
ASSUMPTIONS = [
    "TensorFlow backend not exercised (not installed)",
    "tolerances: symmetry/hermiticity 1e-10, eigenvalues >= -1e-9*(1+scale), trace <= 1+1e-9, weights sum 1e-9; "
    "conservation laws 1e-9 relative in phase space; on the Fock backend exact (1e-10) only while the state is supported "
    "below the cutoff (tracked from the generated preparations), otherwise 1e-6 + 20*(trace lost)",
    "bosonic multi-weight states: the uncertainty relation is checked on the total covariance matrix (necessary condition)",
]
REQUIRED_LABELS = {"all": ["backend:gaussian", "backend:bosonic", "backend:fock", "step:passive", "step:unitary", "step:loss",
                           "fock_pure", "fock_mixed", "step:passive_exact", "step:postselected_homodyne", "step:postselected_heterodyne",
                           "prep:Catstate_opts", "prep:GKP_opts"]}

PASSIVE = {"Rgate", "BSgate", "MZgate", "sMZgate", "Fouriergate"}
UNITARY = PASSIVE | {"Dgate", "Sgate", "S2gate", "Xgate", "Zgate", "Pgate", "CXgate", "CZgate", "Kgate", "CKgate", "Vgate"}
DIAGONAL = {"Rgate", "Kgate", "CKgate", "Fouriergate"}


def selftest():
    refsim.selftest()
    fockref.selftest()


def total_photons(mu, V, hbar):
    n = len(mu) // 2
    return float(sum((V[m, m] + V[m + n, m + n]) / (2 * hbar) - 0.5 + (mu[m] ** 2 + mu[m + n] ** 2) / (2 * hbar) for m in range(n)))


def mode_photons(mu, V, hbar, m):
    n = len(mu) // 2
    return float((V[m, m] + V[m + n, m + n]) / (2 * hbar) - 0.5 + (mu[m] ** 2 + mu[m + n] ** 2) / (2 * hbar))


def _nontrivial(n, ops_):
    return len(ops_) >= 3 and n >= 2 and gen.has_two_mode(ops_) and any(s[0] not in PASSIVE for s in ops_)


# ---------------------------------------------------------------------------------------------
@st.composite
def ps_case(draw):
    n = draw(st.integers(1, 4))
    hbar = draw(st.sampled_from(c01.HBARS))
    ops_ = draw(gen.op_list(n, c01.ALPH_G2, "ps", 2, 8))
    # post-selected measurements: the conditional state left behind has to be physical too
    for _ in range(draw(st.sampled_from([0, 0, 1, 2]))):
        m = draw(st.integers(0, n - 1))
        if draw(st.booleans()):
            mo = ["MeasureHomodyne", [draw(gen.angle())], [m], {"select": draw(gen.fl(-1.5, 1.5)) * np.sqrt(hbar / 2)}]
        else:
            mo = ["MeasureHeterodyne", [], [m], {"select": {"re": draw(gen.fl(-1.0, 1.0)), "im": draw(gen.fl(-1.0, 1.0))}}]
        ops_.insert(draw(st.integers(1, len(ops_))), mo)
    return {"n": n, "hbar": hbar, "ops": ops_}


def check_ps(ctx, case):
    n, hbar, ops_ = case["n"], case["hbar"], case["ops"]
    labels = set()
    ran = False
    for be in ("gaussian", "bosonic"):
        prev = None
        for k in range(1, len(ops_) + 1):
            op = ops_[k - 1]
            try:
                st_ = sfrun.run(be, n, ops_[:k], hbar).state
            except sfrun.Rejected:
                labels.add("rejected:" + be)
                break
            except Exception as exc:  # pylint: disable=broad-except
                return ctx.crash(exc, be + "." + op[0])
            ran = True
            labels.add("backend:" + be)
            if op[0].startswith("Measure"):
                labels.add("step:postselected_" + op[0][7:].lower())
            mu, V, info = sfrun.moments_of(st_, be, hbar)
            sc = 1.0 + float(np.max(np.abs(V))) / (hbar / 2)
            raw = np.array(st_.cov() if be == "gaussian" else np.asarray(st_.covs())[0])
            if float(np.max(np.abs(raw - raw.T))) > 1e-10 * sc * hbar:
                return ctx.fail("%s.cov_not_symmetric.%s" % (be, op[0]), "after prefix %d" % k)
            if be == "bosonic" and sfrun.weights_bad(info):
                return ctx.fail("bosonic.weights_sum.%s" % op[0], "weights sum to %r after prefix %d" % (info["wsum"], k))
            me = float(np.min(np.linalg.eigvalsh(V + 1j * hbar / 2 * refsim.omega(n)))) / (hbar / 2)
            if me < -1e-9 * sc:
                return ctx.fail("%s.uncertainty_violated.%s" % (be, op[0]), "min eig of V + i hbar/2 Omega = %.3g (units of hbar/2) after prefix %d" % (me, k))
            if prev is not None:
                pmu, pV = prev
                if op[0] in UNITARY:
                    labels.add("step:unitary")
                    d0, d1 = np.linalg.det(pV / (hbar / 2)), np.linalg.det(V / (hbar / 2))
                    if abs(d1 - d0) > 1e-8 * max(1.0, abs(d0)) * sc:
                        return ctx.fail("%s.purity_changed.%s" % (be, op[0]), "det V changed %.12g -> %.12g under a unitary gate" % (d0, d1))
                if op[0] in PASSIVE:
                    labels.add("step:passive")
                    a, b = total_photons(pmu, pV, hbar), total_photons(mu, V, hbar)
                    if abs(a - b) > 1e-9 * (1 + abs(a)):
                        return ctx.fail("%s.photon_number_not_conserved.%s" % (be, op[0]), "total mean photon number %.12g -> %.12g under a passive gate" % (a, b))
                if op[0] in ("LossChannel", "ThermalLossChannel"):
                    labels.add("step:loss")
                    m = op[2][0]
                    T = op[1][0]
                    nb = op[1][1] if op[0] == "ThermalLossChannel" else 0.0
                    a, b = mode_photons(pmu, pV, hbar, m), mode_photons(mu, V, hbar, m)
                    if abs(b - (T * a + (1 - T) * nb)) > 1e-9 * (1 + abs(a) + nb):
                        return ctx.fail("%s.loss_photon_number.%s" % (be, op[0]), "mode %d photon number %.10g -> %.10g, expected T n + (1-T) nbar = %.10g" % (m, a, b, T * a + (1 - T) * nb))
                    if op[0] == "LossChannel" and total_photons(mu, V, hbar) > total_photons(pmu, pV, hbar) + 1e-9:
                        return ctx.fail("%s.loss_increased_photons" % be, "total photon number increased under loss")
            prev = (mu, V)
    ctx.note(case, nontrivial=ran and _nontrivial(n, ops_), labels=sorted(labels))
    return None


# ---------------------------------------------------------------------------------------------
F_ALPH = ["Rgate", "BSgate", "MZgate", "Kgate", "CKgate", "LossChannel", "Fouriergate", "sMZgate",
          "Dgate", "Sgate", "S2gate", "Xgate", "Pgate", "CXgate", "Vgate", "Coherent", "Thermal", "Squeezed", "Vacuum", "Fock"]


@st.composite
def fock_case(draw):
    n = draw(st.integers(1, 3))
    D = draw(st.integers(5, 7 if n < 3 else 6))
    pure = draw(st.booleans())
    preps = []
    budget = D - 1
    # 'full': exactly cutoff-1 photons in the register (often all in one mode) followed by photon-number-bounded operations only, so that
    # the exact conservation laws apply with the highest Fock level populated
    full = draw(st.integers(0, 2)) == 0
    for m in range(n):
        if full:
            k = budget if (m == n - 1 or draw(st.booleans())) else draw(st.integers(0, budget))
        else:
            k = draw(st.integers(0, min(2, budget)))
        budget -= k
        preps.append(["Fock", [k], [m], {}])
    if full:
        preps = list(draw(st.permutations(preps)))
        preps = [[p_[0], p_[1], [m], {}] for m, p_ in enumerate(preps)]
        ops_ = draw(gen.op_list(n, ["Rgate", "BSgate", "MZgate", "Kgate", "CKgate", "LossChannel", "LossChannel", "Fouriergate", "sMZgate"], "fock", 2, 6, no_mz_dagger=True))
    else:
        ops_ = draw(gen.op_list(n, F_ALPH, "fock", 2, 6, no_mz_dagger=True))
    for s in ops_:
        if s[0] == "Fock":
            s[1][0] = min(s[1][0], D - 1)
    return {"n": n, "cutoff": D, "pure": pure, "ops": preps + ops_}


def check_fock(ctx, case):
    n, D, pure, ops_ = case["n"], case["cutoff"], case["pure"], case["ops"]
    labels = {"backend:fock", "fock_pure" if pure else "fock_mixed"}
    prev = None
    bound = 0  # upper bound on the total photon number of the support; None = unbounded (truncation may act)
    perm = {m: 0 for m in range(n)}
    for k in range(1, len(ops_) + 1):
        op = ops_[k - 1]
        name = op[0]
        try:
            st_ = sfrun.run("fock", n, ops_[:k], 2.0, D, pure).state
        except sfrun.Rejected:
            labels.add("rejected:fock")
            break
        except Exception as exc:  # pylint: disable=broad-except
            return ctx.crash(exc, "fock." + name)
        data = np.asarray(st_.data)
        if data.ndim == n:
            nrm = float(np.sum(np.abs(data) ** 2))
            if nrm > 1 + 1e-9:
                return ctx.fail("fock.ket_norm_gt_1.%s" % name, "ket norm^2 %.12f after prefix %d" % (nrm, k))
        rho = fockref.state_dm(st_)
        M = fockref.dm_to_matrix(rho, n)
        if float(np.max(np.abs(M - M.conj().T))) > 1e-10:
            return ctx.fail("fock.not_hermitian.%s" % name, "after prefix %d" % k)
        tr = float(np.real(np.trace(M)))
        if tr > 1 + 1e-9:
            return ctx.fail("fock.trace_gt_1.%s" % name, "trace %.12f after prefix %d" % (tr, k))
        ev = float(np.min(np.linalg.eigvalsh((M + M.conj().T) / 2)))
        if ev < -1e-9:
            return ctx.fail("fock.not_psd.%s" % name, "min eigenvalue %.3g after prefix %d" % (ev, k))
        pur = float(np.real(np.trace(M @ M))) / tr ** 2 if tr > 1e-12 else 1.0
        nph = fockref.mean_photons(rho, n) if tr > 1e-12 else [0.0] * n
        # support tracking
        if name == "Fock":
            perm[op[2][0]] = op[1][0]
            if bound is not None:
                bound = None if any(s[0] not in ("Fock",) for s in ops_[:k - 1] if op[2][0] in s[2] and s[0] not in PASSIVE | DIAGONAL) else bound
            # recompute a simple bound: valid only while all operations so far are Fock preps / passive / diagonal / loss / vacuum
        simple = all(s[0] in PASSIVE | DIAGONAL | {"Fock", "LossChannel", "Vacuum"} for s in ops_[:k])
        if simple:
            # total photons <= sum over modes of the largest Fock number ever prepared (preps replace, passive conserve, loss lowers)
            tot = 0
            last = {m: 0 for m in range(n)}
            for s in ops_[:k]:
                if s[0] == "Fock":
                    last[s[2][0]] = max(last[s[2][0]], s[1][0])
            tot = sum(last.values())
            exact = tot <= D - 1
        else:
            exact = False
        if prev is not None:
            ptr, ppur, pnph = prev
            if tr > ptr + 1e-9 and name not in gen.PREPS:
                return ctx.fail("fock.trace_increased.%s" % name, "trace %.12f -> %.12f" % (ptr, tr))
            deficit = max(0.0, ptr - tr)
            tol = 1e-10 if exact else 1e-6 + 20 * deficit
            if name in PASSIVE | DIAGONAL or name == "LossChannel":
                if exact:
                    labels.add("step:passive_exact")
                    if abs(tr - ptr) > 1e-10:
                        return ctx.fail("fock.trace_changed_without_truncation.%s" % name, "trace %.12f -> %.12f although the state is supported below the cutoff" % (ptr, tr))
            if name in UNITARY and ptr > 0.999 and tol < 1e-3:
                labels.add("step:unitary")
                if abs(pur - ppur) > max(tol, 1e-9):
                    return ctx.fail("fock.purity_changed.%s" % name, "purity %.10f -> %.10f (tol %.2g) under a unitary gate" % (ppur, pur, tol))
            if name in PASSIVE and ptr > 0.999 and tol < 1e-3:
                labels.add("step:passive")
                if abs(sum(nph) - sum(pnph)) > max(tol, 1e-9) * (1 + sum(pnph)) * 5:
                    return ctx.fail("fock.photon_number_not_conserved.%s" % name, "total photon number %.10f -> %.10f (tol %.2g)" % (sum(pnph), sum(nph), tol))
            if name == "LossChannel" and ptr > 0.999 and tol < 1e-3:
                labels.add("step:loss")
                m, T = op[2][0], op[1][0]
                if abs(nph[m] - T * pnph[m]) > max(tol, 1e-9) * (1 + pnph[m]) * 5:
                    return ctx.fail("fock.loss_photon_number", "mode %d photon number %.10f -> %.10f, expected %.10f" % (m, pnph[m], nph[m], T * pnph[m]))
                others = [j for j in range(n) if j != m]
                if any(abs(nph[j] - pnph[j]) > max(tol, 1e-9) * 5 for j in others):
                    return ctx.fail("fock.loss_changed_other_mode", "loss on mode %d changed another mode's photon number" % m)
        prev = (tr, pur, nph)
    ctx.note(case, nontrivial=_nontrivial(n, ops_[n:]), labels=sorted(labels))
    return None


# ---------------------------------------------------------------------------------------------
@st.composite
def bng_case(draw):
    n = draw(st.integers(1, 2))
    preps = []
    for m in range(n):
        kind = draw(st.sampled_from(["Catstate", "Fock", "Squeezed", "Catstate_opts", "GKP"]))
        if kind == "Catstate":
            preps.append(["Catstate", [draw(gen.fl(0.4, 1.5)), draw(st.sampled_from([0.0, 1.0]))], [m], {}])
        elif kind == "Catstate_opts":
            # the constructor options: representation and the truncation parameters of the real representation
            kw = {"representation": draw(st.sampled_from(["real", "real", "complex"]))}
            if draw(st.booleans()):
                kw["ampl_cutoff"] = draw(st.sampled_from([1e-12, 1e-6, 1e-3, 1e-2, 0.1]))
            if draw(st.booleans()):
                kw["D"] = draw(st.integers(2, 4))
            preps.append(["Catstate", [draw(gen.fl(0.4, 2.0)), draw(gen.angle()), draw(st.sampled_from([0, 1, 0.5]))], [m], {"kw": kw}])
        elif kind == "GKP":
            kw = {"state": [draw(gen.angle()), draw(gen.angle())], "epsilon": draw(st.sampled_from([0.2, 0.35, 0.5])),
                  "ampl_cutoff": draw(st.sampled_from([1e-6, 1e-3, 1e-2])), "representation": draw(st.sampled_from(["real", "complex"]))}
            preps.append(["GKP", [], [m], {"kw": kw}])
        elif kind == "Fock":
            preps.append(["Fock", [draw(st.integers(1, 2 if n == 1 else 1))], [m], {}])
        else:
            preps.append([kind, draw(gen.op_params(kind, "ps")), [m], {}])
    ops_ = draw(gen.op_list(n, ["Dgate", "Sgate", "Rgate", "BSgate", "LossChannel", "ThermalLossChannel", "S2gate", "MZgate"], "ps", 1, 4))
    return {"n": n, "ops": preps + ops_}


def check_bng(ctx, case):
    n, ops_ = case["n"], case["ops"]
    prev = None
    for k in range(n, len(ops_) + 1):
        op = ops_[k - 1]
        try:
            st_ = sfrun.run("bosonic", n, ops_[:k], 2.0).state
        except sfrun.Rejected:
            ctx.note(case, False, ["rejected:bosonic"])
            return None
        except Exception as exc:  # pylint: disable=broad-except
            return ctx.crash(exc, "bosonic." + op[0])
        mu, V, info = sfrun.moments_of(st_, "bosonic", 2.0)
        if sfrun.weights_bad(info):
            return ctx.fail("bosonic.weights_sum.%s" % op[0], "weights sum to %r after prefix %d" % (info["wsum"], k))
        me = float(np.min(np.linalg.eigvalsh(V + 1j * refsim.omega(n))))
        # bosonic Fock preparations are approximations (quality parameter r=0.05): allow 1e-2
        if me < -2e-2:
            return ctx.fail("bosonic.uncertainty_violated.%s" % op[0], "min eig %.3g after prefix %d" % (me, k))
        btol = 1e-8 + 1e-12 * info["wabs"]  # huge alternating weights of the approximate Fock preparation cancel
        if prev is not None and k > n:
            if op[0] in PASSIVE:
                a, b = total_photons(prev[0], prev[1], 2.0), total_photons(mu, V, 2.0)
                if abs(a - b) > btol * (1 + abs(a)):
                    return ctx.fail("bosonic.photon_number_not_conserved.%s" % op[0], "%.10g -> %.10g" % (a, b))
            if op[0] == "LossChannel":
                m, T = op[2][0], op[1][0]
                a, b = mode_photons(prev[0], prev[1], 2.0, m), mode_photons(mu, V, 2.0, m)
                if abs(b - T * a) > btol * (1 + abs(a)):
                    return ctx.fail("bosonic.loss_photon_number", "mode %d: %.10g -> %.10g expected %.10g" % (m, a, b, T * a))
        prev = (mu, V)
    ctx.note(case, nontrivial=True, labels=["backend:bosonic", "bosonic_nongauss"] + sorted({"prep:" + o[0] + ("_opts" if (o[3] if len(o) > 3 else {}).get("kw") else "") for o in ops_[:n]}))
    return None


SUBS = [
    Sub("ps_physical", check=check_ps, strategy=lambda ctx: ps_case(), examples={"quick": 250, "thorough": 2500},
        shards={"quick": 2, "thorough": 16}, rule="gaussian + bosonic: predicates and step relations after every prefix"),
    Sub("fock_physical", check=check_fock, strategy=lambda ctx: fock_case(), examples={"quick": 40, "thorough": 400},
        shards={"quick": 3, "thorough": 16}, rule="fock pure/mixed: hermitian, PSD, trace<=1 and step relations after every prefix"),
    Sub("bosonic_nongauss", check=check_bng, strategy=lambda ctx: bng_case(), examples={"quick": 50, "thorough": 400},
        shards={"quick": 2, "thorough": 16}, rule="bosonic with cat (both representations, truncation options) / GKP / Fock preparations: weights, total-covariance uncertainty, conservation"),
]

MANIFEST = {
    "technique": "Hypothesis-generated programs, validity predicates and step invariants after every prefix (no reference needed)",
    "text": ("After every prefix of generated programs the returned state must satisfy the physicality predicates of its representation "
             "and the conservation laws that relate it to the previous prefix (unitary: purity; passive: total photon number; loss: "
             "n' = T n + (1-T) nbar; Fock trace constant unless truncation can act)."),
}
