"""C07 - every simulated state is physical; gates conserve what they must.

Validity predicates evaluated after EVERY prefix of a generated program (each prefix is its own program on a
fresh engine), plus step relations between consecutive prefixes (unitary -> purity, passive -> total photon
number, loss -> n' = T n, trace only lost through truncation, never through a measurement).  No reference simulator is involved.

Sub-checks: ps_physical (gaussian + bosonic), fock_physical (bounded-photon Fock preparations + gates), fock_prep_measure (Fock-basis
preparations on mode subsets, measurements, cat / GKP, strong gates, reduced states), bosonic_nongauss (cat / GKP / Fock in the
bosonic simulator with measurements and measurement-based squeezing).
"""
from __future__ import annotations

import numpy as np
from hypothesis import strategies as st

from vf import fockref, gen, refsim, sfrun, spec
from vf.core import Sub

RULE = ("phase space (gaussian + bosonic): 1..4 modes, programs over the Gaussian alphabet incl. thermal loss, plus one matrix-parametrised "
        "operation (native Gaussian(V, r) on a mode subset in any order, decomposed Gaussian / Interferometer / GaussianTransform, lossy "
        "PassiveChannel, measurement-based squeezing) and homodyne / heterodyne / threshold measurements with sampled and post-selected "
        "outcomes; Fock: bounded-photon Fock preparations then gates/channels (1..3 modes, pure and mixed), and programs with Ket / "
        "DensityMatrix on mode subsets in any order, Fock / homodyne measurements, cat / GKP preparations, strong gates, reduced-state requests; "
        "bosonic non-Gaussian preparations followed by gates, measurements and measurement-based squeezing; every prefix checked; "
        "non-trivial = >=3 commands on >=2 modes with at least one non-passive and one two-mode operation")
ASSUMPTIONS = [
    "TensorFlow backend not exercised (not installed)",
    "tolerances: symmetry/hermiticity 1e-10, eigenvalues >= -1e-9*(1+scale), trace <= 1+1e-9, weights sum 1e-9; "
    "conservation laws 1e-9 relative in phase space; on the Fock backend exact (1e-10) only while the state is supported "
    "below the cutoff (tracked from the generated preparations: sum of the photons every preparation put in), otherwise 1e-6 + 20*(trace lost)",
    "bosonic multi-weight states: the uncertainty relation is checked on the total covariance matrix (necessary condition); not at all for "
    "real-representation cat states truncated at ampl_cutoff >= 1e-2 (the caller asked for an approximation that is no state: min eig -0.5)",
    "operations a simulator's compiler refuses (gaussian: MSgate; bosonic: sMZgate, Interferometer, GaussianTransform, PassiveChannel) are "
    "left out of the program given to that simulator",
    "PassiveChannel(T) with singular values <= 1 is a loss ('loss never increases the total mean photon number'); Interferometer is a passive "
    "unitary, GaussianTransform a unitary",
    "measurements: the conditional state is renormalised, so a measurement never lowers the trace (trace is lost through truncation only); "
    "post-selection on an outcome of probability < 1e-8 (Fock) / at the origin for odd states (bosonic) is outside the domain; the Fock "
    "simulator's ZeroDivisionError('Measurement has zero probability') for a post-selected outcome is a rejection",
    "a reduced state requested with eng.run(prog, modes=[...]) has the trace of the full state (1e-9)",
    "sampled outcomes: numpy's global generator is seeded with an integer drawn into the case before every run",
]
REQUIRED_LABELS = {"all": ["backend:gaussian", "backend:bosonic", "backend:fock", "step:passive", "step:unitary", "step:loss",
                           "fock_pure", "fock_mixed", "step:passive_exact", "step:postselected_homodyne", "step:postselected_heterodyne",
                           "prep:Catstate_opts", "prep:GKP_opts",
                           # input classes added by the generator audit (>= 30 cases per quick run at seeds 1..5)
                           "op:Gaussian_native", "op:MSgate_avg", "op:PassiveChannel", "step:sampled_homodyne", "step:sampled_heterodyne",
                           "step:threshold", "step:measure_exact"]}

# own copies (not imported from another property module: those are edited independently)
ALPH_PS = ["Dgate", "Sgate", "Rgate", "BSgate", "S2gate", "MZgate", "Xgate", "Zgate", "Pgate", "CXgate", "CZgate",
           "Fouriergate", "LossChannel", "Vacuum", "Coherent", "Squeezed", "DisplacedSqueezed", "Thermal", "ThermalLossChannel", "sMZgate"]
HBARS = [2.0, 2.0, 0.5, 1.0, 3.3]

# refused by the compiler of the simulator (CircuitError), observed on the unchanged tree
PS_UNSUPPORTED = {"gaussian": {"MSgate"}, "bosonic": {"sMZgate", "Interferometer", "GaussianTransform", "PassiveChannel"}}

PASSIVE = {"Rgate", "BSgate", "MZgate", "sMZgate", "Fouriergate", "Interferometer"}
UNITARY = PASSIVE | {"Dgate", "Sgate", "S2gate", "Xgate", "Zgate", "Pgate", "CXgate", "CZgate", "Kgate", "CKgate", "Vgate", "GaussianTransform"}
DIAGONAL = {"Rgate", "Kgate", "CKgate", "Fouriergate"}


def selftest():
    refsim.selftest()
    fockref.selftest()


def total_photons(mu, V, hbar):
    n = len(mu) // 2
    return float(sum((V[m, m] + V[m + n, m + n]) / (2 * hbar) - 0.5 + (mu[m] ** 2 + mu[m + n] ** 2) / (2 * hbar) for m in range(n)))


def mode_photons(mu, V, hbar, m):
    n = len(mu) // 2
    return float((V[m, m] + V[m + n, m + n]) / (2 * hbar) - 0.5 + (mu[m] ** 2 + mu[m + n] ** 2) / (2 * hbar))


def _nontrivial(n, ops_):
    return len(ops_) >= 3 and n >= 2 and gen.has_two_mode(ops_) and any(s[0] not in PASSIVE for s in ops_)


# ---------------------------------------------------------------------------------------------
@st.composite
def passive_channel_op(draw, n):
    """PassiveChannel(T) on 1..n modes listed in any order; T = U diag(s) W with singular values s in [0, 1] (a lossy interferometer)"""
    k = draw(st.integers(1, n))
    modes = list(draw(st.permutations(list(range(n))))[:k])
    U, W = draw(gen.unitary(k))[1], draw(gen.unitary(k))[1]
    s = [draw(st.one_of(st.sampled_from([1.0, 0.0, 0.5]), gen.fl(0.0, 1.0))) for _ in range(k)]
    return ["PassiveChannel", [spec.enc_matrix(np.asarray(U, complex) @ np.diag(s) @ W)], modes, {}]


@st.composite
def msgate_op(draw, n, single_shot=True):
    """measurement-based squeezing (bosonic only): target squeezing, ancilla squeezing >= 0 (10 = the default), detection efficiency in (0, 1]"""
    r = draw(gen.real(-1.0, 1.0, (0.0, 1e-9)))
    r_anc = draw(st.one_of(st.sampled_from([10.0, 0.0, 1.0]), gen.fl(0.0, 3.0)))
    eta = draw(st.one_of(st.sampled_from([1.0, 0.5]), gen.fl(0.2, 1.0)))
    avg = True if not single_shot else draw(st.sampled_from([True, True, False]))
    return ["MSgate", [r, draw(gen.angle()), r_anc, eta, avg], [draw(st.integers(0, n - 1))], {}]


@st.composite
def ps_measure_op(draw, n, hbar):
    """homodyne / heterodyne with and without post-selection, threshold detection of one or two modes"""
    m = draw(st.integers(0, n - 1))
    kind = draw(st.sampled_from(["hom_sel", "het_sel", "hom", "het", "thr", "hom_sel", "het_sel"]))
    if kind == "hom_sel":
        return ["MeasureHomodyne", [draw(gen.angle())], [m], {"select": draw(gen.fl(-1.5, 1.5)) * np.sqrt(hbar / 2)}]
    if kind == "het_sel":
        return ["MeasureHeterodyne", [], [m], {"select": {"re": draw(gen.fl(-1.0, 1.0)), "im": draw(gen.fl(-1.0, 1.0))}}]
    if kind == "hom":
        return ["MeasureHomodyne", [draw(gen.angle())], [m], {}]
    if kind == "het":
        return ["MeasureHeterodyne", [], [m], {}]
    modes = list(draw(st.permutations(list(range(n))))[:draw(st.integers(1, min(2, n)))])
    return ["MeasureThreshold", [], modes, {}]


@st.composite
def ps_measure_ops(draw, n, hbar):
    """one measurement. finding F67 (fixed), formerly AUDIT-FINDING threshold-vacuum-crash: the bosonic threshold detector draws its outcome with
    np.random.choice(p=[F, 1 - F]); for a mode that is numerically in the vacuum F exceeds 1 by more than the 1e-15 the code allows for
    (1 + 2e-13 with the cancelling weights of cat x Fock states, a few ulp are enough) and numpy raises ValueError -> every threshold
    detector is preceded by a displacement of the measured modes for now (which also makes the 'click' outcome, the only one after which
    the bosonic simulator holds several weights, frequent)"""
    mo = draw(ps_measure_op(n, hbar))
    if mo[0] == "MeasureThreshold":  # (F67 is fixed; the displacement stays: a click on a mode that is almost in the vacuum divides the weights by ~0 and amplifies rounding)
        return [["Dgate", [draw(gen.fl(0.3, 1.5)), draw(gen.angle())], [m], {}] for m in mo[2]] + [mo]
    return [mo]


@st.composite
def matrix_op(draw, n, hbar):
    """one matrix-parametrised operation on k >= 2 modes listed in any order (cyclic listings of >= 3 modes included):
    Gaussian(V, r) preparation (native and decomposed), Interferometer(U), GaussianTransform(S)"""
    k = draw(st.integers(2, n))
    modes = list(draw(st.permutations(list(range(n))))[:k])
    what = draw(st.sampled_from(["Gaussian", "Interferometer", "Interferometer", "GaussianTransform", "GaussianTransform"]))
    if what == "Gaussian":
        _, V = draw(gen.covariance(k, hbar, ["pure_generic", "mixed_generic", "mixed_diag", "pure_blockdiag"]))
        r = [draw(gen.fl(-1.0, 1.0)) * np.sqrt(hbar / 2) for _ in range(2 * k)]
        return ["Gaussian", [spec.enc_matrix(V), spec.enc_vec(r)], modes, {"kw": {"decomp": True}}]
    if what == "Interferometer":
        return ["Interferometer", [spec.enc_matrix(draw(gen.unitary(k, ["haar"]))[1])], modes, {}]
    return ["GaussianTransform", [spec.enc_matrix(draw(gen.symplectic(k, 0.5, ["generic"]))[2])], modes, {}]


@st.composite
def gaussian_native_op(draw, n, hbar):
    """Gaussian(V, r, decomp=False) on 1..n modes listed in any order: the backends overwrite the blocks of the listed modes in place
    and have to cut every correlation with the rest of the register"""
    k = draw(st.integers(1, n))
    modes = list(draw(st.permutations(list(range(n))))[:k])
    _, V = draw(gen.covariance(k, hbar, ["pure_generic", "mixed_generic", "pure_diag", "thermal", "pure_blockdiag"]))
    r = [draw(gen.fl(-1.0, 1.0)) * np.sqrt(hbar / 2) for _ in range(2 * k)]
    return ["Gaussian", [spec.enc_matrix(V), spec.enc_vec(r)], modes, {"kw": {"decomp": False}}]


@st.composite
def ps_case(draw):
    n = draw(st.integers(1, 4))
    hbar = draw(st.sampled_from(HBARS))
    # units: lists of commands that stay adjacent whatever is inserted later
    units = [[o] for o in draw(gen.op_list(n, ALPH_PS, "ps", 2, 8))]
    # matrix-parametrised operations on mode subsets listed in any order: native / decomposed Gaussian(V, r), Interferometer,
    # GaussianTransform, lossy PassiveChannel (Gaussian backend only), measurement-based squeezing (bosonic only)
    extra = draw(st.sampled_from(["", "matrix", "matrix", "gaussian_native", "gaussian_native", "passive_channel", "msgate", "msgate"]))
    if extra == "matrix" and n >= 2:
        units.insert(draw(st.integers(0, len(units))), [draw(matrix_op(n, hbar))])
    elif extra == "gaussian_native":
        units.insert(draw(st.integers(min(2, len(units)), len(units))), [draw(gaussian_native_op(n, hbar))])
    elif extra == "passive_channel":
        units.insert(draw(st.integers(0, len(units))), [draw(passive_channel_op(n))])
    elif extra == "msgate":
        units.insert(draw(st.integers(0, len(units))), [draw(msgate_op(n))])
    if n >= 2 and draw(st.integers(0, 2)) == 0:
        # a preparation in the MIDDLE of the program, on a mode that is strongly correlated with another one: every trace of the old state
        # (also its correlations) has to go, else the covariance matrix is not a state (seeded change C07-F: Thermal kept them)
        a, b = draw(st.permutations(list(range(n))))[:2]
        k = draw(st.sampled_from(["Thermal", "Thermal", "Vacuum", "Coherent", "Squeezed", "DisplacedSqueezed"]))
        units.insert(draw(st.integers(0, len(units))), [["S2gate", [draw(gen.fl(0.4, 0.9)), draw(gen.angle())], [a, b], {}], [k, draw(gen.op_params(k, "ps")), [a], {}]])
    # measurements: the conditional state left behind has to be physical too (post-selected and sampled outcomes)
    for _ in range(draw(st.sampled_from([0, 1, 1, 2, 2]))):
        units.insert(draw(st.integers(1, len(units))), draw(ps_measure_ops(n, hbar)))
    ops_ = [o for u in units for o in u]
    return {"n": n, "hbar": hbar, "ops": ops_, "seed": draw(st.integers(0, 2 ** 16))}


def _op_label(op):
    """label of the input class an operation belongs to (None for the plain alphabet)"""
    name, flags = op[0], (op[3] if len(op) > 3 else {})
    if name == "Gaussian":
        return "op:Gaussian_decomp" if flags.get("kw", {}).get("decomp", True) else "op:Gaussian_native"
    if name in ("Interferometer", "GaussianTransform", "PassiveChannel"):
        return "op:" + name
    if name == "MSgate":
        return "op:MSgate_avg" if op[1][4] else "op:MSgate_single_shot"
    if name in ("MeasureHomodyne", "MeasureHeterodyne"):
        return "step:%s_%s" % ("postselected" if flags.get("select") is not None else "sampled", name[7:].lower())
    if name == "MeasureThreshold":
        return "step:threshold"
    return None


def check_ps(ctx, case):
    n, hbar, ops_ = case["n"], case["hbar"], case["ops"]
    seed = case.get("seed", 0)
    labels = set()
    ran = False
    for be in ("gaussian", "bosonic"):
        prev = None
        # each simulator runs the program without the operations its compiler refuses (a refusal would end the case for that simulator)
        ops_ = [o for o in case["ops"] if o[0] not in PS_UNSUPPORTED[be]]
        for k in range(1, len(ops_) + 1):
            op = ops_[k - 1]
            try:
                st_ = sfrun.run(be, n, ops_[:k], hbar, seed=seed).state
            except sfrun.Rejected:
                labels.add("rejected:" + be)
                break
            except Exception as exc:  # pylint: disable=broad-except
                return ctx.crash(exc, be + "." + op[0])
            ran = True
            labels.add("backend:" + be)
            if _op_label(op):
                labels.add(_op_label(op))
                if op[0] in ("MSgate", "MeasureThreshold", "PassiveChannel"):
                    labels.add(_op_label(op) + ":" + be)
            mu, V, info = sfrun.moments_of(st_, be, hbar)
            if info.get("weights", 1) > 1:
                labels.add("bosonic_multiweight_after_threshold")
            sc = 1.0 + float(np.max(np.abs(V))) / (hbar / 2)
            raw = np.array(st_.cov() if be == "gaussian" else np.asarray(st_.covs())[0])
            if float(np.max(np.abs(raw - raw.T))) > 1e-10 * sc * hbar:
                return ctx.fail("%s.cov_not_symmetric.%s" % (be, op[0]), "after prefix %d" % k)
            if be == "bosonic" and sfrun.weights_bad(info):
                return ctx.fail("bosonic.weights_sum.%s" % op[0], "weights sum to %r after prefix %d" % (info["wsum"], k))
            me = float(np.min(np.linalg.eigvalsh(V + 1j * hbar / 2 * refsim.omega(n)))) / (hbar / 2)
            # measurement-based squeezing works with an ancilla squeezed by r_anc: intermediate quantities are of size exp(2 r_anc) (4.9e8 for
            # the generated r_anc = 10) and leave a rounding error of that size times eps in the (pure) result
            slack = max([1e-15 * float(np.exp(2 * abs(o_[1][2]))) for o_ in ops_[:k] if o_[0] == "MSgate"] + [0.0])
            if me < -1e-9 * sc - slack:
                return ctx.fail("%s.uncertainty_violated.%s" % (be, op[0]), "min eig of V + i hbar/2 Omega = %.3g (units of hbar/2) after prefix %d" % (me, k))
            if prev is not None:
                pmu, pV = prev
                if op[0] in UNITARY:
                    labels.add("step:unitary")
                    d0, d1 = np.linalg.det(pV / (hbar / 2)), np.linalg.det(V / (hbar / 2))
                    if abs(d1 - d0) > 1e-8 * max(1.0, abs(d0)) * sc:
                        return ctx.fail("%s.purity_changed.%s" % (be, op[0]), "det V changed %.12g -> %.12g under a unitary gate" % (d0, d1))
                if op[0] in PASSIVE:
                    labels.add("step:passive")
                    a, b = total_photons(pmu, pV, hbar), total_photons(mu, V, hbar)
                    if abs(a - b) > 1e-9 * (1 + abs(a)):
                        return ctx.fail("%s.photon_number_not_conserved.%s" % (be, op[0]), "total mean photon number %.12g -> %.12g under a passive gate" % (a, b))
                if op[0] in ("LossChannel", "ThermalLossChannel"):
                    labels.add("step:loss")
                    m = op[2][0]
                    T = op[1][0]
                    nb = op[1][1] if op[0] == "ThermalLossChannel" else 0.0
                    a, b = mode_photons(pmu, pV, hbar, m), mode_photons(mu, V, hbar, m)
                    if abs(b - (T * a + (1 - T) * nb)) > 1e-9 * (1 + abs(a) + nb):
                        return ctx.fail("%s.loss_photon_number.%s" % (be, op[0]), "mode %d photon number %.10g -> %.10g, expected T n + (1-T) nbar = %.10g" % (m, a, b, T * a + (1 - T) * nb))
                    if op[0] == "LossChannel" and total_photons(mu, V, hbar) > total_photons(pmu, pV, hbar) + 1e-9:
                        return ctx.fail("%s.loss_increased_photons" % be, "total photon number increased under loss")
                if op[0] == "PassiveChannel":
                    # a lossy interferometer (singular values <= 1): the total mean photon number cannot grow
                    a, b = total_photons(pmu, pV, hbar), total_photons(mu, V, hbar)
                    if b > a + 1e-9 * (1 + abs(a)):
                        return ctx.fail("%s.loss_increased_photons.PassiveChannel" % be, "total mean photon number %.12g -> %.12g under a passive channel with singular values <= 1" % (a, b))
            prev = (mu, V)
    ctx.note(case, nontrivial=ran and _nontrivial(n, case["ops"]), labels=sorted(labels))
    return None


# ---------------------------------------------------------------------------------------------
F_ALPH = ["Rgate", "BSgate", "MZgate", "Kgate", "CKgate", "LossChannel", "Fouriergate", "sMZgate",
          "Dgate", "Sgate", "S2gate", "Xgate", "Pgate", "CXgate", "Vgate", "Coherent", "Thermal", "Squeezed", "Vacuum", "Fock",
          "Zgate", "CZgate", "DisplacedSqueezed"]
F_BOUNDED = ["Rgate", "BSgate", "MZgate", "Kgate", "CKgate", "LossChannel", "LossChannel", "Fouriergate", "sMZgate"]
# operations that cannot raise the total photon number of the support (preparations are accounted for separately)
F_SIMPLE = PASSIVE | DIAGONAL | {"Fock", "LossChannel", "Vacuum", "Ket", "DensityMatrix", "MeasureFock", "MeasureHomodyne"}


def _fix_fock_ops(ops_, D):
    for s in ops_:
        if s[0] == "Fock":
            s[1][0] = min(s[1][0], D - 1)
        # finding F64 (fixed): the Fock-basis displaced squeezed state is super-normalised (norm^2 up to 1 + 1e-3)
        # for a small but non-zero squeezing 1e-8 < |r_s| < ~1e-2 (regulariser 1e-10 in ops.displacedSqueezed) -> keep |r_s| >= 0.05 or 0
        pass  # (F64 fixed: small non-zero squeezing of DisplacedSqueezed is generated again)
    return ops_


@st.composite
def fock_case(draw):
    n = draw(st.integers(1, 3))
    D = draw(st.integers(5, 7 if n < 3 else 6))
    pure = draw(st.booleans())
    preps = []
    budget = D - 1
    # 'full': exactly cutoff-1 photons in the register (often all in one mode) followed by photon-number-bounded operations only, so that
    # the exact conservation laws apply with the highest Fock level populated
    full = draw(st.integers(0, 2)) == 0
    for m in range(n):
        if full:
            k = budget if (m == n - 1 or draw(st.booleans())) else draw(st.integers(0, budget))
        else:
            k = draw(st.integers(0, min(2, budget)))
        budget -= k
        preps.append(["Fock", [k], [m], {}])
    if full:
        preps = list(draw(st.permutations(preps)))
        preps = [[p_[0], p_[1], [m], {}] for m, p_ in enumerate(preps)]
        ops_ = draw(gen.op_list(n, F_BOUNDED, "fock", 2, 6, no_mz_dagger=True))
    else:
        ops_ = draw(gen.op_list(n, F_ALPH, "fock", 2, 6, no_mz_dagger=True))
    return {"n": n, "cutoff": D, "pure": pure, "ops": preps + _fix_fock_ops(ops_, D)}


# --- Fock-basis preparations on several modes, measurements, strong parameters -----------------------------------------------------
@st.composite
def _amps(draw, k, D, budget):
    """sparse k-mode ket: 1..3 distinct basis states with at most `budget` photons in total, complex amplitudes (normalised when built)"""
    out, seen = [], set()
    for _ in range(draw(st.integers(1, 3))):
        left, idx = budget, []
        for _m in range(k):
            idx.append(draw(st.integers(0, min(left, D - 1))))
            left -= idx[-1]
        idx = list(draw(st.permutations(idx)))
        if tuple(idx) in seen:
            continue
        seen.add(tuple(idx))
        re, im = draw(gen.fl(-1.0, 1.0)), draw(gen.fl(-1.0, 1.0))
        if abs(re) + abs(im) < 1e-3:
            re = 1.0
        out.append([idx, re, im])
    return out


@st.composite
def fock_prep_op(draw, n, D, budget, whole_ket=False):
    """Ket / DensityMatrix on 1..n modes listed in any order (3-cycles included); whole_ket: a Ket on the whole register, the only
    preparation after which a multi-mode simulation stays in the pure representation"""
    k = n if whole_ket else draw(st.sampled_from([1, 2, 2, 3])) if n == 3 else draw(st.integers(1, n))
    modes = list(draw(st.permutations(list(range(n))))[:k])
    if whole_ket or draw(st.booleans()):
        return ["Ket", [{"amps": draw(_amps(k, D, budget))}], modes, {}]
    mix = [[draw(gen.fl(0.1, 1.0)), draw(_amps(k, D, budget))] for _ in range(draw(st.integers(1, 2)))]
    return ["DensityMatrix", [{"mix": mix}], modes, {}]


@st.composite
def fock_measure_op(draw, n, D):
    """MeasureFock on 1..n modes in any order (sampled, or post-selected on small photon numbers), MeasureHomodyne (sampled / post-selected)"""
    kind = draw(st.sampled_from((["fock3", "fock3"] if n == 3 else []) + ["fock", "fock_sel", "fock_sel", "hom_sel", "hom_sel", "hom"]))
    if kind == "fock3":
        # all three modes in a cyclic order (a permutation that is not its own inverse), outcome sampled
        return ["MeasureFock", [], draw(st.sampled_from([[1, 2, 0], [2, 0, 1]])), {}]
    if kind.startswith("fock"):
        modes = list(draw(st.permutations(list(range(n))))[:draw(st.integers(1, n))])
        if kind == "fock":
            return ["MeasureFock", [], modes, {}]
        return ["MeasureFock", [], modes, {"kw": {"select": [draw(st.sampled_from([0, 0, 1, 1, 2, D - 1])) for _ in modes]}}]
    m = draw(st.integers(0, n - 1))
    if kind == "hom_sel":
        return ["MeasureHomodyne", [draw(gen.angle())], [m], {"select": draw(st.sampled_from([1.0, -1.0])) * draw(gen.fl(0.2, 1.5))}]
    return ["MeasureHomodyne", [draw(gen.angle())], [m], {}]


@st.composite
def fock2_case(draw):
    flavour = draw(st.sampled_from(["ket_dm", "ket_dm", "measure", "measure", "measure", "cat_gkp", "cat_gkp", "hot"]))
    n = draw(st.sampled_from([1, 2, 3, 3, 3] if flavour == "ket_dm" else [1, 2, 3, 3] if flavour == "measure" else [1, 2, 2, 3]))
    D = draw(st.integers(4, 6 if n < 3 else 5))
    pure = draw(st.booleans())
    budget = D - 1
    ops_ = []
    if flavour == "cat_gkp":
        for m in range(n):
            if draw(st.booleans()):
                # an odd cat (p = 1) of zero amplitude does not exist: amplitudes from 0.3
                ops_.append(["Catstate", [draw(gen.fl(0.3, 1.2)), draw(gen.angle()), draw(st.sampled_from([1, 0, 1, 0.5]))], [m], {}])
            else:
                ops_.append(["GKP", [], [m], {"kw": {"state": [draw(gen.angle()), draw(gen.angle())], "epsilon": draw(st.sampled_from([0.2, 0.35, 0.5, 1.0])),
                                                     "ampl_cutoff": draw(st.sampled_from([1e-12, 1e-3]))}}])
        ops_ += draw(gen.op_list(n, F_BOUNDED + ["Dgate", "Sgate"], "fock", 1, 3, no_mz_dagger=True))
    elif flavour == "hot":
        # strong gates: the truncation acts on every step, only the unconditional predicates (hermitian, PSD, trace <= 1) can bite
        ops_ += [["Fock", [draw(st.integers(0, D - 1))], [m], {}] for m in range(n)]
        ops_ += draw(gen.op_list(n, [a for a in F_ALPH if a != "Vgate"], "ps", 2, 4, no_mz_dagger=True))
    else:
        # photon-number-bounded programs: the exact step relations apply throughout
        first = draw(st.sampled_from(["any", "whole_ket", "fock"] if flavour == "measure" else ["any", "any", "whole_ket"]))
        ops_.append(["Fock", [budget], [draw(st.integers(0, n - 1))], {}] if first == "fock" else draw(fock_prep_op(n, D, budget, whole_ket=first == "whole_ket")))
        body = draw(gen.op_list(n, F_BOUNDED, "fock", 1, 4, no_mz_dagger=True))
        for _ in range(draw(st.integers(1, 2))):
            extra = draw(fock_measure_op(n, D)) if flavour == "measure" or draw(st.integers(0, 3)) == 0 else draw(fock_prep_op(n, D, 1))
            body.insert(draw(st.integers(1, len(body))), extra)
        ops_ += body
    # reduced-state request eng.run(prog, modes=red): mostly at least two modes in a non-ascending order (rotations = 3-cycles, reversals)
    red = None
    if draw(st.integers(0, 3)) > 0:
        red = sorted(draw(st.permutations(list(range(n))))[:draw(st.integers(min(2, n), n))])
        how = draw(st.sampled_from(["rotate", "rotate", "reverse", "sorted"]))
        red = red[1:] + red[:1] if how == "rotate" else red[::-1] if how == "reverse" else red
    return {"n": n, "cutoff": D, "pure": pure, "ops": _fix_fock_ops(ops_, D), "seed": draw(st.integers(0, 2 ** 16)), "red": red, "flavour": flavour}


def _ket_tensor(amps, k, D):
    psi = np.zeros((D,) * k, dtype=complex)
    for idx, re, im in amps:
        psi[tuple(idx)] += complex(re, im)
    return psi / np.sqrt(float(np.sum(np.abs(psi) ** 2)))


def _prep_photons(op):
    """largest total photon number in the support of a Fock-basis preparation"""
    if op[0] == "Fock":
        return op[1][0]
    if op[0] == "Ket":
        return max(sum(a[0]) for a in op[1][0]["amps"])
    if op[0] == "DensityMatrix":
        return max(sum(a[0]) for _p, amps in op[1][0]["mix"] for a in amps)
    return 0


def _fock_program(n, oplist, D):
    """like spec.build_program, plus Ket / DensityMatrix given as tensors with one (ket) or two (density matrix) indices per mode"""
    import strawberryfields as sf
    from strawberryfields import ops

    prog = sf.Program(n)
    with prog.context as q:
        for o in oplist:
            nm, params, modes = o[0], o[1], o[2]
            if nm == "Ket":
                op = ops.Ket(_ket_tensor(params[0]["amps"], len(modes), D))
            elif nm == "DensityMatrix":
                w = np.array([c[0] for c in params[0]["mix"]], float)
                op = ops.DensityMatrix(sum(wi / w.sum() * fockref.ket_to_dm(_ket_tensor(c[1], len(modes), D)) for wi, c in zip(w, params[0]["mix"])))
            else:
                op = spec.make_op(ops, nm, params, o[3] if len(o) > 3 else {})
            regs = tuple(q[m] for m in modes)
            op | (regs if len(regs) != 1 else regs[0])  # pylint: disable=expression-not-assigned
    return prog


def _run_fock(case, k, run_kwargs=None):
    with sfrun.HbarCtx(2.0):
        prog = _fock_program(case["n"], case["ops"][:k], case["cutoff"])
    return sfrun.run("fock", case["n"], None, 2.0, case["cutoff"], case["pure"], seed=case.get("seed", 0), prog=prog, run_kwargs=run_kwargs).state


def _fock_predicates(ctx, st_, n, name, where):
    """hermitian, PSD, trace <= 1 (and ket norm <= 1); returns (failure | None, trace, purity, mean photons, density tensor)"""
    data = np.asarray(st_.data)
    if data.ndim == n:
        nrm = float(np.sum(np.abs(data) ** 2))
        if nrm > 1 + 1e-9:
            return ctx.fail("fock.ket_norm_gt_1.%s" % name, "ket norm^2 %.12f %s" % (nrm, where)), 0, 0, 0, None
    rho = fockref.state_dm(st_)
    M = fockref.dm_to_matrix(rho, n)
    if not np.all(np.isfinite(M)):
        return ctx.fail("fock.nonfinite_state.%s" % name, where), 0, 0, 0, None
    if float(np.max(np.abs(M - M.conj().T))) > 1e-10:
        return ctx.fail("fock.not_hermitian.%s" % name, where), 0, 0, 0, None
    tr = float(np.real(np.trace(M)))
    if tr > 1 + 1e-9:
        return ctx.fail("fock.trace_gt_1.%s" % name, "trace %.12f %s" % (tr, where)), 0, 0, 0, None
    ev = float(np.min(np.linalg.eigvalsh((M + M.conj().T) / 2)))
    if ev < -1e-9:
        return ctx.fail("fock.not_psd.%s" % name, "min eigenvalue %.3g %s" % (ev, where)), 0, 0, 0, None
    pur = float(np.real(np.trace(M @ M))) / tr ** 2 if tr > 1e-12 else 1.0
    nph = fockref.mean_photons(rho, n) if tr > 1e-12 else [0.0] * n
    return None, tr, pur, nph, rho


def check_fock(ctx, case):
    n, D, pure, ops_ = case["n"], case["cutoff"], case["pure"], case["ops"]
    labels = {"backend:fock", "fock_pure" if pure else "fock_mixed"}
    prev = prho = None
    done = 0
    for k in range(1, len(ops_) + 1):
        op = ops_[k - 1]
        name = op[0]
        flags = op[3] if len(op) > 3 else {}
        sel = flags.get("kw", {}).get("select") if name == "MeasureFock" else None
        if sel is not None and prho is not None:
            # conditioning on an outcome that the state before the measurement excludes (probability zero up to rounding, e.g. a coincidence
            # behind a balanced beamsplitter) is outside the domain: the renormalised result would be rounding noise
            pr = fockref.probs(prho, n)
            pr = float(np.sum(pr[tuple(sel[op[2].index(m)] if m in op[2] else slice(None) for m in range(n))]))
            if pr < 1e-8:
                labels.add("rejected:negligible_probability_outcome")
                break
        try:
            st_ = _run_fock(case, k)
        except sfrun.Rejected:
            labels.add("rejected:fock")
            break
        except ZeroDivisionError as exc:
            # the simulator's documented refusal of a post-selection on an outcome of probability zero
            if sel is not None and "zero probability" in str(exc):
                labels.add("rejected:zero_probability_outcome")
                break
            return ctx.crash(exc, "fock." + name)
        except Exception as exc:  # pylint: disable=broad-except
            return ctx.crash(exc, "fock." + name)
        done = k
        bad, tr, pur, nph, prho = _fock_predicates(ctx, st_, n, name, "after prefix %d" % k)
        if bad is not None:
            return bad
        if name in ("Ket", "DensityMatrix"):
            labels.add("prep:%s_%s" % (name, "all_modes" if len(op[2]) == n else "subset" if len(op[2]) > 1 or n == 1 else "one_mode"))
            if len(op[2]) >= 2 and op[2] != sorted(op[2]):
                labels.add("prep:multimode_unsorted")
            if k > 1:
                labels.add("prep:fock_basis_midcircuit")
        elif name in ("Catstate", "GKP", "DisplacedSqueezed", "Zgate", "CZgate"):
            labels.add("fock_op:" + name)
        elif name.startswith("Measure"):
            labels.add("step:%s_%s" % (name, "postselected" if flags.get("select") is not None or flags.get("kw", {}).get("select") is not None else "sampled"))
            if len(op[2]) >= 2:
                labels.add("step:MeasureFock_multimode")
            if list(op[2]) in ([1, 2, 0], [2, 0, 1]):
                labels.add("step:MeasureFock_3cycle")
            if np.asarray(st_.data).ndim == n and n >= 2:
                labels.add("step:measure_pure_multimode")
        # support tracking: while every operation so far is a Fock-basis preparation / passive / diagonal / loss / measurement, the total
        # photon number of the support is at most the sum of what the preparations put in (never more than that, whatever was replaced)
        exact = all(s[0] in F_SIMPLE for s in ops_[:k]) and sum(_prep_photons(s) for s in ops_[:k]) <= D - 1
        if prev is not None:
            ptr, ppur, pnph = prev
            if name.startswith("Measure"):
                # the conditional state is renormalised: trace is lost only through truncation, never through a measurement
                if tr < ptr - 1e-9:
                    return ctx.fail("fock.trace_lost_in_measurement.%s" % name, "trace %.12f -> %.12f" % (ptr, tr))
            elif tr > ptr + 1e-9 and name not in gen.PREPS and name != "GKP":
                return ctx.fail("fock.trace_increased.%s" % name, "trace %.12f -> %.12f" % (ptr, tr))
            deficit = max(0.0, ptr - tr)
            tol = 1e-10 if exact else 1e-6 + 20 * deficit
            if name in PASSIVE | DIAGONAL or name == "LossChannel" or name.startswith("Measure") or name in ("Fock", "Ket", "DensityMatrix", "Vacuum"):
                if exact:
                    labels.add("step:passive_exact")
                    if name.startswith("Measure"):
                        labels.add("step:measure_exact")
                    if abs(tr - ptr) > 1e-10:
                        return ctx.fail("fock.trace_changed_without_truncation.%s" % name, "trace %.12f -> %.12f although the state is supported below the cutoff" % (ptr, tr))
            if name in UNITARY and ptr > 0.999 and tol < 1e-3:
                labels.add("step:unitary")
                if abs(pur - ppur) > max(tol, 1e-9):
                    return ctx.fail("fock.purity_changed.%s" % name, "purity %.10f -> %.10f (tol %.2g) under a unitary gate" % (ppur, pur, tol))
            if name in PASSIVE and ptr > 0.999 and tol < 1e-3:
                labels.add("step:passive")
                if abs(sum(nph) - sum(pnph)) > max(tol, 1e-9) * (1 + sum(pnph)) * 5:
                    return ctx.fail("fock.photon_number_not_conserved.%s" % name, "total photon number %.10f -> %.10f (tol %.2g)" % (sum(pnph), sum(nph), tol))
            if name == "LossChannel" and ptr > 0.999 and tol < 1e-3:
                labels.add("step:loss")
                m, T = op[2][0], op[1][0]
                if abs(nph[m] - T * pnph[m]) > max(tol, 1e-9) * (1 + pnph[m]) * 5:
                    return ctx.fail("fock.loss_photon_number", "mode %d photon number %.10f -> %.10f, expected %.10f" % (m, pnph[m], nph[m], T * pnph[m]))
                others = [j for j in range(n) if j != m]
                if any(abs(nph[j] - pnph[j]) > max(tol, 1e-9) * 5 for j in others):
                    return ctx.fail("fock.loss_changed_other_mode", "loss on mode %d changed another mode's photon number" % m)
        prev = (tr, pur, nph)
    red = case.get("red")
    if red and done == len(ops_):
        # the same program, asking the engine for the reduced state of some modes in some order: a partial trace keeps hermiticity,
        # positivity and the trace
        try:
            st_ = _run_fock(case, done, run_kwargs={"modes": list(red)})
        except Exception as exc:  # pylint: disable=broad-except
            return ctx.crash(exc, "fock.reduced_state")
        labels.add("reduced_state_request")
        if len(red) >= 2 and red != sorted(red):
            labels.add("reduced_state_unsorted")
        bad, tr, _pur, _nph, _rho = _fock_predicates(ctx, st_, len(red), "reduced_state", "for modes=%r" % (red,))
        if bad is not None:
            return bad
        if abs(tr - prev[0]) > 1e-9:
            return ctx.fail("fock.reduced_state_trace", "trace of the reduced state %.12f, of the full state %.12f (modes=%r)" % (tr, prev[0], red))
    labels.add("flavour:" + case.get("flavour", "classic"))
    ctx.note(case, nontrivial=_nontrivial(n, ops_ if "flavour" in case else ops_[n:]), labels=sorted(labels))
    return None


# ---------------------------------------------------------------------------------------------
@st.composite
def bng_case(draw):
    n = draw(st.integers(1, 2))
    hbar = draw(st.sampled_from([2.0, 2.0, 2.0, 0.5, 3.3]))
    preps = []
    fock_photons = 0
    for m in range(n):
        kind = draw(st.sampled_from(["Catstate", "Fock", "Squeezed", "Catstate_opts", "GKP"]))
        if kind == "Catstate":
            preps.append(["Catstate", [draw(gen.fl(0.4, 1.5)), draw(st.sampled_from([0.0, 1.0]))], [m], {}])
        elif kind == "Catstate_opts":
            # the constructor options: representation and the truncation parameters of the real representation
            kw = {"representation": draw(st.sampled_from(["real", "real", "complex"]))}
            if draw(st.booleans()):
                kw["ampl_cutoff"] = draw(st.sampled_from([1e-12, 1e-6, 1e-3, 1e-2, 0.1]))
            if draw(st.booleans()):
                kw["D"] = draw(st.integers(2, 4))
            preps.append(["Catstate", [draw(gen.fl(0.4, 2.0)), draw(gen.angle()), draw(st.sampled_from([0, 1, 0.5]))], [m], {"kw": kw}])
        elif kind == "GKP":
            kw = {"state": [draw(gen.angle()), draw(gen.angle())], "epsilon": draw(st.sampled_from([0.2, 0.35, 0.5])),
                  "ampl_cutoff": draw(st.sampled_from([1e-6, 1e-3, 1e-2])), "representation": draw(st.sampled_from(["real", "real", "real", "complex"]))}
            preps.append(["GKP", [], [m], {"kw": kw}])
        elif kind == "Fock":
            preps.append(["Fock", [draw(st.integers(1, 2 if n == 1 else 1))], [m], {}])
            fock_photons += preps[-1][1][0]
        else:
            preps.append([kind, draw(gen.op_params(kind, "ps")), [m], {}])
    ops_ = draw(gen.op_list(n, ["Dgate", "Sgate", "Rgate", "BSgate", "LossChannel", "ThermalLossChannel", "S2gate", "MZgate"], "ps", 1, 4))
    # measurements (the weights are re-weighted and renormalised) and measurement-based squeezing on the non-Gaussian states. Outcomes are
    # sampled (rejection sampling: cost ~ number of weights * sum |w|, unbounded in practice for the alternating weights ~1e3..1e6 of real
    # cats / Fock(2) / products with Fock(1)) only for: complex cats, squeezed states, at most one GKP state, or one Fock(1) without GKP;
    # a threshold click multiplies sum |w| by ~2/(1-F), so cases with sampled outcomes carry no threshold detector
    real_cats = sum(1 for p_ in preps if p_[0] == "Catstate" and p_[3].get("kw", {}).get("representation") == "real")
    gkps = sum(1 for p_ in preps if p_[0] == "GKP")
    sampling = real_cats == 0 and gkps <= 1 and (fock_photons == 0 or (fock_photons == 1 and gkps == 0)) and draw(st.booleans())
    # finding F66 (fixed): when every mode is prepared as a real-representation cat state the weights are a float64
    # array and the in-place re-weighting of any dyne / threshold measurement raises UFuncTypeError -> no measurements in that class for now
    if False and real_cats == n:  # (F66 fixed: measurements on all-real-cat registers are generated again)
        kinds = ["msgate"]
    elif sampling:
        kinds = ["hom", "het", "msgate_single_shot", "hom", "het", "msgate", "hom_sel", "het_sel"]
    else:
        kinds = ["hom_sel", "het_sel", "thr", "msgate"]
    units = [[o] for o in ops_]  # lists of commands that stay adjacent whatever is inserted later
    for _ in range(draw(st.sampled_from([0, 1, 1, 2]))):
        kind = draw(st.sampled_from(kinds))
        m = draw(st.integers(0, n - 1))
        # post-selected outcomes stay away from the origin: odd states (Fock(1), odd cats) have exactly zero probability density there
        # and conditioning on an impossible outcome is outside the domain
        sgn = draw(st.sampled_from([1.0, -1.0]))
        if kind == "hom_sel":
            mo = ["MeasureHomodyne", [draw(gen.angle())], [m], {"select": sgn * draw(gen.fl(0.25, 1.5)) * np.sqrt(hbar / 2)}]
        elif kind == "het_sel":
            mo = ["MeasureHeterodyne", [], [m], {"select": {"re": sgn * draw(gen.fl(0.2, 1.0)), "im": draw(gen.fl(-1.0, 1.0))}}]
        elif kind == "hom":
            mo = ["MeasureHomodyne", [draw(gen.angle())], [m], {}]
        elif kind == "het":
            mo = ["MeasureHeterodyne", [], [m], {}]
        elif kind == "thr":
            mo = ["MeasureThreshold", [], [m], {}]
        else:
            mo = draw(msgate_op(n, single_shot=sampling))
            if kind == "msgate_single_shot":
                mo[1][4] = False
        # finding F67 (fixed), formerly AUDIT-FINDING threshold-vacuum-crash (see ps_measure_ops): the detector never looks at a mode that may be in the vacuum
        units.insert(draw(st.integers(0, len(units))), ([["Dgate", [draw(gen.fl(0.3, 1.5)), draw(gen.angle())], [m], {}]] if kind == "thr" else []) + [mo])
    return {"n": n, "hbar": hbar, "ops": preps + [o for u in units for o in u], "seed": draw(st.integers(0, 2 ** 16))}


def check_bng(ctx, case):
    n, ops_ = case["n"], case["ops"]
    hbar, seed = case.get("hbar", 2.0), case.get("seed", 0)
    prev = None
    labels = set()
    coarse = any(o[0] == "Catstate" and len(o) > 3 and o[3].get("kw", {}).get("representation") == "real" and o[3]["kw"].get("ampl_cutoff", 0) >= 1e-2
                 for o in ops_[:n])
    if coarse:
        labels.add("nongauss:coarse_real_cat")
    for k in range(n, len(ops_) + 1):
        op = ops_[k - 1]
        try:
            st_ = sfrun.run("bosonic", n, ops_[:k], hbar, seed=seed).state
        except sfrun.Rejected:
            ctx.note(case, False, ["rejected:bosonic"])
            return None
        except Exception as exc:  # pylint: disable=broad-except
            return ctx.crash(exc, "bosonic." + op[0])
        mu, V, info = sfrun.moments_of(st_, "bosonic", hbar)
        if k > n and _op_label(op):
            labels.add("nongauss:" + _op_label(op))
        if not (np.all(np.isfinite(mu)) and np.all(np.isfinite(V)) and np.isfinite(info["wabs"])):
            return ctx.fail("bosonic.nonfinite_state.%s" % op[0], "weights / means / covariances contain nan or inf after prefix %d" % k)
        if sfrun.weights_bad(info):
            return ctx.fail("bosonic.weights_sum.%s" % op[0], "weights sum to %r after prefix %d" % (info["wsum"], k))
        me = float(np.min(np.linalg.eigvalsh(V + 1j * hbar / 2 * refsim.omega(n)))) / (hbar / 2)
        # bosonic Fock preparations are approximations (quality parameter r=0.05): allow 1e-2. A real-representation cat that the caller
        # truncates at ampl_cutoff >= 1e-2 is not a state any more (min eig down to -0.5 at 0.1, -0.0095 at 1e-2 on a grid of amplitudes):
        # only the exact statements (weights sum, conservation laws) are checked for those
        if me < -2e-2 and not coarse:
            return ctx.fail("bosonic.uncertainty_violated.%s" % op[0], "min eig %.3g (units of hbar/2) after prefix %d" % (me, k))
        btol = 1e-8 + 1e-12 * info["wabs"]  # huge alternating weights of the approximate Fock preparation cancel
        if prev is not None and k > n:
            if op[0] in PASSIVE:
                a, b = total_photons(prev[0], prev[1], hbar), total_photons(mu, V, hbar)
                if abs(a - b) > btol * (1 + abs(a)):
                    return ctx.fail("bosonic.photon_number_not_conserved.%s" % op[0], "%.10g -> %.10g" % (a, b))
            if op[0] == "LossChannel":
                m, T = op[2][0], op[1][0]
                a, b = mode_photons(prev[0], prev[1], hbar, m), mode_photons(mu, V, hbar, m)
                if abs(b - T * a) > btol * (1 + abs(a)):
                    return ctx.fail("bosonic.loss_photon_number", "mode %d: %.10g -> %.10g expected %.10g" % (m, a, b, T * a))
        prev = (mu, V)
    if hbar != 2.0:
        labels.add("nongauss:hbar_not_2")
    ctx.note(case, nontrivial=True, labels=["backend:bosonic", "bosonic_nongauss"] + sorted(labels) + sorted({"prep:" + o[0] + ("_opts" if (o[3] if len(o) > 3 else {}).get("kw") else "") for o in ops_[:n]}))
    return None


SUBS = [
    Sub("ps_physical", check=check_ps, strategy=lambda ctx: ps_case(), examples={"quick": 250, "thorough": 2500},
        shards={"quick": 2, "thorough": 16}, rule="gaussian + bosonic: predicates and step relations after every prefix; alphabet + native/decomposed Gaussian, Interferometer, "
        "GaussianTransform, PassiveChannel, MSgate, sampled / post-selected homodyne and heterodyne, threshold detection"),
    Sub("fock_physical", check=check_fock, strategy=lambda ctx: fock_case(), examples={"quick": 40, "thorough": 400},
        shards={"quick": 3, "thorough": 16}, rule="fock pure/mixed: hermitian, PSD, trace<=1 and step relations after every prefix"),
    Sub("fock_prep_measure", check=check_fock, strategy=lambda ctx: fock2_case(), examples={"quick": 45, "thorough": 450},
        shards={"quick": 3, "thorough": 16}, rule="fock pure/mixed: Ket / DensityMatrix on mode subsets in any order (also mid-circuit), Fock and homodyne "
        "measurements (sampled, post-selected, several modes), cat / GKP preparations, strong gates under truncation, reduced-state requests"),
    Sub("bosonic_nongauss", check=check_bng, strategy=lambda ctx: bng_case(), examples={"quick": 120, "thorough": 1000},
        shards={"quick": 2, "thorough": 16}, rule="bosonic with cat (both representations, truncation options) / GKP / Fock preparations, then gates, dyne / threshold measurements "
        "and measurement-based squeezing, three values of hbar: weights, total-covariance uncertainty, conservation"),
]

MANIFEST = {
    "technique": "Hypothesis-generated programs, validity predicates and step invariants after every prefix (no reference needed)",
    "text": ("After every prefix of generated programs the returned state must satisfy the physicality predicates of its representation "
             "and the conservation laws that relate it to the previous prefix (unitary: purity; passive: total photon number; loss: "
             "n' = T n + (1-T) nbar, never more photons under a lossy passive channel; Fock trace constant unless truncation can act, never "
             "lowered by a measurement). Programs include matrix-parametrised preparations and transformations on mode subsets, measurements "
             "with sampled and post-selected outcomes on all three simulators, Fock-basis preparations of several modes, non-Gaussian "
             "preparations of both simulators and reduced-state requests."),
}
