"""C18 - programs reported equal or equivalent really compute the same thing.

Pairs (A, B) are derived from one generated Gaussian base program by a labelled edit.  The oracle is refsim:
whether A and B are the same phase-space map is *computed*, never assumed from the edit.

  soundness      A == B or A.equivalence(B) reported True  ==>  the maps are equal (to 1e-4; equivalence itself uses atol 1e-6)
  algebra        reflexive; symmetric; an identical rebuild is equal and equivalent; reordering commands that act on disjoint
                 modes (one adjacent swap, or any re-linearisation that keeps the order on every wire) keeps programs equivalent
  options        equivalence(atol=, rtol=) tighter than the default stays sound and follows the documented formula
                 |a-b| <= atol + rtol*|b|; compare_params=False can only merge, never split
  statefulness   the verdict follows a program that is extended in place after a comparison
  robustness     comparing two well-formed programs never raises (ParameterError for not-yet-measured parameters is the documented
                 rejection of equivalence())

Sub-check `measured_pairs`: programs with post-selected homodyne/heterodyne measurements and gates whose parameter is a measured
value; the oracle is the conditional output state on a fixed generic probe input state.
"""
from __future__ import annotations

import copy

import numpy as np
from hypothesis import strategies as st

from vf import gen, refsim, spec
from vf.core import Sub

RULE = ("base program: 1..7 Gaussian commands (incl. .H, two-mode gates on ordered targets, matrix-valued operations Interferometer / "
        "GaussianTransform / Gaussian / Ggate, beamsplitters and CX gates at and NEAR the angles equivalence() special-cases) on "
        "1..4 modes; partner = base after ONE labelled edit (rebuild, append, drop last, flip dagger, change a parameter by "
        "1e-9/1e-5/3e-4/1e-3/1, change a matrix/vector argument by 1e-9/3e-4/1, move to another mode, swap targets (also of a gate inserted at / next to the special values), swap adjacent "
        "disjoint commands, swap adjacent OVERLAPPING commands, re-linearise keeping every wire's order, arbitrary permutation, "
        "larger register, unrelated program), optionally compared with equivalence() keyword options and again after B was extended "
        "in place; measured_pairs: the same edits on programs with post-selected measurements and measured parameters; non-trivial = "
        "the edit was applicable and the oracle determined whether the maps differ")
ASSUMPTIONS = [
    "two programs 'compute the same thing' iff their refsim maps (X, Y, d) agree to 1e-4 (parameter edits of 1e-9 may legitimately be "
    "reported equivalent because equivalence() compares with atol=1e-6)",
    "only the soundness direction is demanded of == and equivalence() (they may report 'different' for equal maps), plus reflexivity, "
    "symmetry, identical rebuilds and commuting swaps/re-linearisations",
    "equivalence(atol=a, rtol=r): a single scalar parameter changed by more than 10*(a + r*|b|) must be reported inequivalent "
    "(documented comparison formula); compare_params=False must report equivalent whenever the default call does, and whenever only "
    "a scalar parameter of an operation other than BSgate/CXgate was changed (those two choose their wire matching from the value)",
    "measured_pairs: post-selected measurements make the run deterministic; two programs are the same iff the conditional output "
    "states on one fixed generic Gaussian probe input agree to 1e-4 (weaker than map equality, so only fewer 'differ' verdicts); a "
    "measured parameter evaluates to the select value of the latest homodyne measurement of its mode",
]
REQUIRED_LABELS = {"all": ["edit:rebuild", "edit:drop_last", "edit:flip_dagger", "edit:param_1e-3", "edit:move_mode", "edit:swap_targets",
                           "edit:swap_commuting", "edit:param_0.0003", "edit:param_1e-5", "maps_differ", "maps_equal", "reported_equal", "reported_different",
                           "edit:swap_overlapping", "edit:reorder_commuting", "edit:permute", "edit:arr_0.0003", "edit:arr_1",
                           "reorder:non_involution", "special:bs_near_symmetric", "special:cx_small", "kw:atol", "kw:compare_params",
                           "stateful:append_in_place", "measured:symbolic_param", "measured:conditioned", "edit:swap_special", "edit:select_removed", "select_zero_removed"]}

ALPH = ["Dgate", "Sgate", "Rgate", "BSgate", "S2gate", "MZgate", "CXgate", "CZgate", "Xgate", "Pgate", "Fouriergate", "LossChannel",
        "Coherent", "Squeezed", "Vacuum", "Thermal", "sMZgate", "Zgate", "DisplacedSqueezed", "ThermalLossChannel"]
EDITS = ["rebuild", "append", "drop_last", "flip_dagger", "param_1e-9", "param_1e-3", "param_1", "move_mode", "swap_targets",
         "swap_commuting", "bigger_register", "unrelated", "param_0.0003", "param_1e-5",
         "swap_overlapping", "reorder_commuting", "permute", "arr_1e-9", "arr_0.0003", "arr_1", "swap_special", "swap_special"]
ARRAY_OPS = ["Interferometer", "GaussianTransform", "Gaussian", "Ggate"]
# equivalence() keyword options: only tolerances at or below the default (soundness to 1e-4 still applies) and compare_params=False
KWARGS = [None, None, None, {"atol": 1e-12}, {"atol": 0.0, "rtol": 0.0}, {"rtol": 1e-12}, {"atol": 1e-9, "rtol": 1e-9}, {"compare_params": False}]
MEAS = ("MeasureHomodyne", "MeasureHeterodyne")
# "select_changed": same program, another post-selection value (finding F70, fixed: == and equivalence() ignored select / dark_counts)
EDITS_M = ["rebuild", "drop_last", "flip_dagger", "param_1e-3", "param_1", "move_mode", "swap_commuting", "swap_overlapping",
           "reorder_commuting", "sym_scale_1e-9", "sym_scale_1e-3", "sym_scale_1", "sym_source", "select_changed", "select_removed"]
# "select_removed": the same measurement without post-selection (a random outcome instead of a projection: never the same program, also
# when the selected value is exactly 0 - seeded change C18-E tested the option for truthiness)
SELECT_EDITS = ["select_changed", "select_removed"]


def selftest():
    refsim.selftest()
    # the oracle of measured_pairs on a hand-typed case: two-mode squeezed vacuum, homodyne x on mode 0 -> mode 1 is displaced by a
    # value proportional to the selected outcome; a feed-forward Xgate with the right gain brings it back to the origin
    r = 0.7
    base = [["S2gate", [r, 0.0], [0, 1], {}], ["MeasureHomodyne", [0.0], [0], {"select": 0.8}]]
    mu0, _ = cond_state(2, base, probe=False)
    want = np.tanh(2 * r) * 0.8
    if abs(mu0[1] - want) > 1e-9:
        raise AssertionError("cond_state: conditional mean %r, expected %r" % (mu0[1], want))
    mu1, _ = cond_state(2, base + [["Xgate", [["mul", -np.tanh(2 * r), ["meas", 0]]], [1], {}]], probe=False)
    if abs(mu1[1]) > 1e-9:
        raise AssertionError("cond_state: feed-forward did not cancel the conditional displacement: %r" % (mu1[1],))
    if wire_order_kept([["Sgate", [0.1, 0.0], [0], {}], ["Rgate", [0.1], [1], {}]], [1, 0]) is not True:
        raise AssertionError("wire_order_kept: disjoint swap")
    if wire_order_kept([["Sgate", [0.1, 0.0], [0], {}], ["BSgate", [0.1, 0.0], [1, 0], {}]], [1, 0]) is not False:
        raise AssertionError("wire_order_kept: overlapping swap")


# ----------------------------------------------------------------------------------------------
# generators
# ----------------------------------------------------------------------------------------------
@st.composite
def array_op(draw, n, names=None):
    """an operation whose arguments are arrays: unitary, symplectic, covariance + mean vector, symplectic + displacement vector"""
    name = draw(st.sampled_from(names or ARRAY_OPS))
    if name == "Interferometer":
        k = draw(st.integers(2 if n >= 2 else 1, n))
    else:
        k = draw(st.integers(1, min(n, 2)))
    modes = list(draw(st.permutations(list(range(n))))[:k])
    if name == "Interferometer":
        params = [spec.enc_matrix(draw(gen.unitary(k))[1])]
    elif name == "GaussianTransform":
        params = [spec.enc_matrix(draw(gen.symplectic(k, 0.6))[2])]
    elif name == "Ggate":
        params = [spec.enc_matrix(draw(gen.symplectic(k, 0.6))[2]), spec.enc_vec(draw(st.lists(gen.fl(-1.0, 1.0), min_size=2 * k, max_size=2 * k)))]
    else:
        params = [spec.enc_matrix(draw(gen.covariance(k))[1]), spec.enc_vec(draw(st.lists(gen.fl(-1.0, 1.0), min_size=2 * k, max_size=2 * k)))]
    return [name, params, modes, {}]


PI = float(np.pi)
BS_THETA = [PI / 4, -PI / 4, 3 * PI / 4, 5 * PI / 4, 0.3, PI / 4 + 2e-3]
# phases at, and 1e-3 .. 3e-2 next to, the values for which a beamsplitter is symmetric under a swap of its targets
BS_PHI = [PI / 2, 0.0, -PI / 2, 3 * PI / 2, 0.3, PI, PI / 2 + 1e-3, PI / 2 - 5e-3, PI / 2 + 3e-2, -PI / 2 + 5e-3]
BS_NEAR = BS_PHI[6:]
CX_SMALL = [0.0, 1e-9, 1e-3, -1e-3, 5e-3, 0.05]


@st.composite
def pair_case(draw):
    edit = draw(st.sampled_from(EDITS))
    n = draw(st.integers(2 if edit == "swap_special" else 1, 4))
    ops_ = draw(gen.op_list(n, ALPH, "ps", 1, 7))
    if n >= 2 and draw(st.integers(0, 4)) == 0:
        k = draw(st.integers(2, n))
        modes = list(draw(st.permutations(list(range(n))))[:k])
        ops_.insert(draw(st.integers(0, len(ops_))), ["Interferometer", [spec.enc_matrix(draw(gen.unitary(k))[1])], modes, {}])
    if edit.startswith("arr_") or draw(st.integers(0, 7)) == 0:
        ops_.insert(draw(st.integers(0, len(ops_))), draw(array_op(n)))
    special_idx = None
    if n >= 2 and (edit == "swap_special" or (edit in ("swap_targets", "rebuild", "flip_dagger") and draw(st.booleans()))):
        pos = draw(st.integers(0, len(ops_)))
        modes = list(draw(st.permutations(list(range(n))))[:2])
        if draw(st.integers(0, 2)) > 0:
            # a beamsplitter at / next to the special angles equivalence() treats separately (phase pi/2: symmetric under a swap of its targets)
            th = draw(st.sampled_from(BS_THETA))
            ph = draw(st.sampled_from(BS_NEAR if edit == "swap_special" and draw(st.booleans()) else BS_PHI))
            ops_.insert(pos, ["BSgate", [float(th), float(ph)], modes, {}])
        else:
            # a controlled-X gate that is (nearly) the identity: equivalence() ignores the order of its targets when the parameter is 0
            ops_.insert(pos, ["CXgate", [float(draw(st.sampled_from(CX_SMALL)))], modes, {}])
        special_idx = [i for i, o in enumerate(ops_) if len(o[2]) == 2].index(pos)
    idx = draw(st.integers(0, len(ops_) - 1))
    if special_idx is not None and (edit == "swap_special" or (edit == "swap_targets" and draw(st.integers(0, 3)) > 0)):
        idx = special_idx  # the edit hits the special gate
    # drawn only where used (generation dominates the cost of a case)
    then_append = draw(st.integers(0, 5)) == 0
    extra = draw(gen.op_spec(n, ALPH, "ps")) if edit == "append" or then_append else None
    other = draw(gen.op_list(n, ALPH, "ps", 1, 5)) if edit == "unrelated" else []
    newmode = draw(st.integers(0, n - 1))
    picks = draw(st.lists(st.integers(0, 7), min_size=8, max_size=8)) if edit in ("reorder_commuting", "permute") else [0]
    kw = draw(st.sampled_from(KWARGS))
    return {"n": n, "ops": ops_, "edit": edit, "idx": idx, "extra": extra, "other": other, "newmode": newmode, "picks": picks, "kw": kw,
            "then_append": then_append}


MEAS_GATES = {"Xgate": [], "Zgate": [], "Rgate": [], "Pgate": [], "Sgate": [0.4], "Dgate": [0.7], "BSgate": [0.3], "CZgate": []}


@st.composite
def meas_case(draw):
    """Gaussian commands, then post-selected measurements of 1..2 modes, then commands some of which take a measured value"""
    edit = draw(st.sampled_from(EDITS_M))
    two_sources = edit == "sym_source"  # needs two homodyne-measured modes
    n = draw(st.integers(3 if two_sources else 2, 4))
    ops_ = draw(gen.op_list(n, ALPH, "ps", 1, 4))
    measured = list(draw(st.permutations(list(range(n))))[:2 if two_sources else draw(st.integers(1, min(2, n - 1)))])
    hom = []
    for m in measured:
        if hom and not two_sources and draw(st.integers(0, 2)) == 0:
            zero = draw(st.integers(0, 3)) == 0
            ops_.append(["MeasureHeterodyne", [], [m], {"select": {"re": 0.0 if zero else draw(gen.fl(-1.0, 1.0)), "im": 0.0 if zero else draw(gen.fl(-1.0, 1.0))}}])
        else:
            ops_.append(["MeasureHomodyne", [draw(gen.angle())], [m], {"select": draw(st.one_of(gen.fl(-1.5, 1.5), gen.fl(-1.5, 1.5), st.sampled_from([0.0, 0])))}])
            hom.append(m)
        if draw(st.integers(0, 3)) == 0:
            ops_.append(draw(gen.op_spec(n, ALPH, "ps")))
    for k_post in range(draw(st.integers(1, 3))):
        if hom and ((k_post == 0 and edit.startswith("sym_")) or draw(st.integers(0, 2)) > 0):
            name = draw(st.sampled_from(sorted(MEAS_GATES)))
            k = gen.n_modes_of(name)
            modes = list(draw(st.permutations(list(range(n))))[:k])
            src = draw(st.sampled_from(hom))
            c = draw(st.one_of(st.just(1.0), gen.fl(-1.5, 1.5)))
            ast = ["meas", src] if c == 1.0 and draw(st.booleans()) else ["mul", c, ["meas", src]]
            flags = {"H": True} if draw(st.integers(0, 4)) == 0 else {}
            ops_.append([name, [ast] + list(MEAS_GATES[name]), modes, flags])
        else:
            ops_.append(draw(gen.op_spec(n, ALPH, "ps")))
    idx = draw(st.integers(0, len(ops_) - 1))
    extra = draw(gen.op_spec(n, ALPH, "ps")) if edit == "append" else None
    other = draw(gen.op_list(n, ALPH, "ps", 1, 3)) if edit == "unrelated" else []
    newmode = draw(st.integers(0, n - 1))
    picks = draw(st.lists(st.integers(0, 7), min_size=8, max_size=8)) if edit in ("reorder_commuting", "permute") else [0]
    dsel = draw(st.sampled_from([0.4, -0.4, 1e-3]))
    return {"n": n, "ops": ops_, "edit": edit, "idx": idx, "extra": extra, "other": other, "newmode": newmode, "picks": picks, "dsel": dsel,
            "measured": True}


# ----------------------------------------------------------------------------------------------
# edits
# ----------------------------------------------------------------------------------------------
def sources(ast):
    """modes whose measured value a symbolic parameter uses"""
    if not isinstance(ast, list):
        return set()
    if ast[0] == "meas":
        return {int(ast[1])}
    out = set()
    for a in ast[1:]:
        out |= sources(a)
    return out


def touched(o):
    """wires a command sits on: its targets and the measured modes its parameters depend on"""
    t = set(o[2])
    for p in o[1]:
        t |= sources(p)
    return t


def wire_order_kept(ops_, order):
    """True iff the re-ordering keeps the relative order of every two commands that share a wire"""
    pos = {c: k for k, c in enumerate(order)}
    for i in range(len(ops_)):
        for j in range(i + 1, len(ops_)):
            if touched(ops_[i]) & touched(ops_[j]) and pos[i] > pos[j]:
                return False
    return True


def linear_extension(ops_, picks):
    """a re-ordering that keeps every wire's order, chosen by the drawn integers `picks`"""
    remaining = list(range(len(ops_)))
    order = []
    k = 0
    while remaining:
        ready = [i for i in remaining if not any(touched(ops_[i]) & touched(ops_[j]) for j in remaining if j < i)]
        c = ready[picks[k % len(picks)] % len(ready)]
        k += 1
        order.append(c)
        remaining.remove(c)
    return order


def shuffled(L, picks):
    order = list(range(L))
    for i in range(L - 1, 0, -1):
        j = picks[i % len(picks)] % (i + 1)
        order[i], order[j] = order[j], order[i]
    return order


def order_labels(order):
    L = len(order)
    if order == list(range(L)):
        return ["reorder:identity"]
    twice = [order[order[i]] for i in range(L)]
    return ["reorder:involution" if twice == list(range(L)) else "reorder:non_involution"]


def edit_array(o, delta, idx):
    """change one array argument of `o` in place by `delta`, keeping it a valid argument of its operation"""
    cands = [j for j, p in enumerate(o[1]) if isinstance(p, dict)]
    j = cands[idx % len(cands)]
    M = spec.dec_param(o[1][j])
    if "vec" in o[1][j]:
        M = M.copy()
        M[idx % len(M)] += delta
        o[1][j] = spec.enc_vec(M)
        return "vector"
    k = len(o[2])
    if o[0] == "Interferometer":
        M = M.astype(complex).copy()
        M[idx % k] *= np.exp(1j * delta)  # one row gets a phase: still unitary, the other rows are unchanged
        o[1][j] = {"cmat": [[[float(z.real), float(z.imag)] for z in row] for row in M]}
        return "unitary_row_phase"
    if o[0] in ("GaussianTransform", "Ggate"):
        R = np.eye(2 * k)
        m = idx % k
        R[m, m] = R[m + k, m + k] = np.cos(delta)
        R[m, m + k] = -np.sin(delta)
        R[m + k, m] = np.sin(delta)
        o[1][j] = spec.enc_matrix(R @ M)  # followed by a rotation of one mode: still symplectic
        return "symplectic_rotated"
    o[1][j] = spec.enc_matrix(M * (1.0 + delta))  # covariance scaled up: still a valid covariance
    return "covariance_scaled"


def apply_edit(case, labels=None):
    """returns (n2, ops2) or None if the edit does not apply"""
    labels = [] if labels is None else labels
    n, ops_, edit, idx = case["n"], case["ops"], case["edit"], case["idx"]
    o2 = copy.deepcopy(ops_)
    if edit == "rebuild":
        return n, o2
    if edit == "append":
        return n, o2 + [case["extra"]]
    if edit == "drop_last":
        return (n, o2[:-1]) if len(o2) >= 1 else None
    if edit == "flip_dagger":
        cands = [i for i, o in enumerate(o2) if o[0] in gen.GATES]
        if not cands:
            return None
        o = o2[cands[idx % len(cands)]]
        o[3] = dict(o[3])
        o[3]["H"] = not o[3].get("H", False)
        return n, o2
    if edit.startswith("param_"):
        delta = float(edit.split("_")[1])
        cands = [i for i, o in enumerate(o2) if o[1] and any(isinstance(p, float) for p in o[1])]
        if not cands:
            return None
        o = o2[cands[idx % len(cands)]]
        j = idx % len(o[1])
        if not isinstance(o[1][j], float):
            j = [jj for jj, p in enumerate(o[1]) if isinstance(p, float)][0]
        val = o[1][j] + delta
        if o[0] in ("LossChannel", "ThermalLossChannel") and j == 0 and not 0 <= val <= 1:
            val = o[1][j] - delta
            if not 0 <= val <= 1:
                return None
        if o[0] in ("Thermal",) and val < 0:
            return None
        o[1][j] = val
        labels.append("param_index:%d" % min(j, 2))
        return n, o2
    if edit.startswith("arr_"):
        cands = [i for i, o in enumerate(o2) if any(isinstance(p, dict) for p in o[1])]
        if not cands:
            return None
        o = o2[cands[idx % len(cands)]]
        labels.append("arr:" + edit_array(o, float(edit.split("_")[1]), idx))
        labels.append("arr_op:" + o[0])
        return n, o2
    if edit == "move_mode":
        cands = [i for i, o in enumerate(o2) if len(o[2]) == 1]
        if not cands or n < 2:
            return None
        o = o2[cands[idx % len(cands)]]
        nm = case["newmode"]
        if nm == o[2][0]:
            nm = (nm + 1) % n
        o[2] = [nm]
        return n, o2
    if edit in ("swap_targets", "swap_special"):
        cands = [i for i, o in enumerate(o2) if len(o[2]) == 2]
        if not cands:
            return None
        o = o2[cands[idx % len(cands)]]
        o[2] = [o[2][1], o[2][0]]
        if o[0] == "BSgate" and abs(abs(o[1][1]) % PI - PI / 2) < 0.05 and abs(o[1][1]) % PI != PI / 2:
            labels.append("special:bs_near_symmetric")
        if o[0] == "CXgate" and abs(o[1][0]) <= 0.05:
            labels.append("special:cx_small")
        return n, o2
    if edit == "swap_commuting":
        cands = [i for i in range(len(o2) - 1) if not touched(o2[i]) & touched(o2[i + 1])]
        if not cands:
            return None
        i = cands[idx % len(cands)]
        o2[i], o2[i + 1] = o2[i + 1], o2[i]
        return n, o2
    if edit == "swap_overlapping":
        cands = [i for i in range(len(o2) - 1) if set(o2[i][2]) & set(o2[i + 1][2])]
        if not cands:
            return None
        i = cands[idx % len(cands)]
        o2[i], o2[i + 1] = o2[i + 1], o2[i]
        return n, o2
    if edit in ("reorder_commuting", "permute"):
        picks = case.get("picks") or [0]
        order = linear_extension(o2, picks) if edit == "reorder_commuting" else shuffled(len(o2), picks)
        labels.extend(order_labels(order))
        labels.append("order:keeps_wires" if wire_order_kept(o2, order) else "order:breaks_wires")
        return n, [o2[i] for i in order]
    if edit == "bigger_register":
        return n + 1, o2
    if edit == "unrelated":
        return n, copy.deepcopy(case["other"])
    if edit.startswith("sym_scale_"):
        delta = float(edit.split("_")[2])
        cands = [i for i, o in enumerate(o2) if o[1] and isinstance(o[1][0], list)]
        if not cands:
            return None
        o = o2[cands[idx % len(cands)]]
        ast = o[1][0]
        o[1][0] = ["mul", 1.0 + delta, ast] if ast[0] == "meas" else ["mul", ast[1] + delta, ast[2]]
        return n, o2
    if edit == "sym_source":
        cands = [i for i, o in enumerate(o2) if o[1] and isinstance(o[1][0], list)]
        hom = sorted({o[2][0] for o in o2 if o[0] == "MeasureHomodyne"})
        if not cands or len(hom) < 2:
            return None
        o = o2[cands[idx % len(cands)]]
        ast = o[1][0]
        leaf = ast if ast[0] == "meas" else ast[2]
        leaf[1] = [m for m in hom if m != leaf[1]][case["newmode"] % (len(hom) - 1)]
        return n, o2
    if edit == "select_removed":
        cands = [i for i, o in enumerate(o2) if o[0] in MEAS]
        if not cands:
            return None
        o = o2[cands[idx % len(cands)]]
        s = o[3]["select"]
        if labels is not None and (s == 0 if not isinstance(s, dict) else (s["re"] == 0 and s["im"] == 0)):
            labels.append("select_zero_removed")
        o[3] = dict(o[3], select=None)
        return n, o2
    if edit == "select_changed":
        cands = [i for i, o in enumerate(o2) if o[0] in MEAS]
        if not cands:
            return None
        o = o2[cands[idx % len(cands)]]
        o[3] = dict(o[3])
        s = o[3]["select"]
        o[3]["select"] = {"re": s["re"] + case.get("dsel", 0.4), "im": s["im"]} if isinstance(s, dict) else s + case.get("dsel", 0.4)
        return n, o2
    return None


# ----------------------------------------------------------------------------------------------
# oracle
# ----------------------------------------------------------------------------------------------
def maps_equal(n1, ops1, n2, ops2):
    if n1 != n2:
        n = max(n1, n2)
    else:
        n = n1
    a = spec.ref_run(n, ops1, 2.0)
    b = spec.ref_run(n, ops2, 2.0)
    d = max(float(np.max(np.abs(a.X - b.X))), float(np.max(np.abs(a.Y - b.Y))), float(np.max(np.abs(a.d - b.d))))
    return d, d < 1e-4 * (1 + float(np.max(np.abs(a.X))))


def eval_ast(ast, vals):
    if not isinstance(ast, list):
        return float(ast)
    k = ast[0]
    if k == "meas":
        return vals[int(ast[1])]  # KeyError: used before a (homodyne) measurement of that mode
    if k == "mul":
        return eval_ast(ast[1], vals) * eval_ast(ast[2], vals)
    if k == "add":
        return eval_ast(ast[1], vals) + eval_ast(ast[2], vals)
    if k == "neg":
        return -eval_ast(ast[1], vals)
    raise ValueError("unknown symbolic node %r" % (k,))


def numeric_ops(ops_):
    """measured parameters replaced by the select value of the latest homodyne measurement of their mode; None if a value is used
    before it exists (such a program can be written down but not run)"""
    vals = {}
    out = []
    for o in ops_:
        try:
            ps = [eval_ast(p, vals) if isinstance(p, list) else p for p in o[1]]
        except KeyError:
            return None
        out.append([o[0], ps, o[2], o[3] if len(o) > 3 else {}])
        if o[0] == "MeasureHomodyne":
            vals[o[2][0]] = float((o[3] or {}).get("select"))
        elif o[0] == "MeasureHeterodyne":
            vals.pop(o[2][0], None)
    return out


def cond_state(n, ops_, probe=True):
    """(mu, V) after the post-selected run, starting from a fixed generic Gaussian probe state (or vacuum)"""
    ref = refsim.Ref(n, 2.0)
    if probe:
        for m in range(n):
            ref.apply("Squeezed", [0.3 + 0.1 * m, 0.4 + 0.3 * m], [m])
            ref.apply("Dgate", [0.5 + 0.2 * m, -0.3 + 0.7 * m], [m])
        for m in range(n - 1):
            ref.apply("BSgate", [0.6 + 0.1 * m, 0.2 + 0.5 * m], [m, m + 1])
    num = numeric_ops(ops_)
    if num is None:
        return None
    spec.ref_run(n, num, 2.0, ref)
    return ref.mu, ref.V


def states_equal(n, ops1, ops2):
    a = cond_state(n, ops1)
    b = cond_state(n, ops2)
    if a is None or b is None:
        return None
    d = max(float(np.max(np.abs(a[0] - b[0]))), float(np.max(np.abs(a[1] - b[1]))))
    return d, d < 1e-4 * (1 + float(np.max(np.abs(a[1]))))


def build(n, oplist):
    """spec.build_program plus measured parameters (q[m].par) of the program that is being built"""
    import strawberryfields as sf
    from strawberryfields import ops

    prog = sf.Program(n)
    with prog.context as q:
        def sym(ast):
            k = ast[0]
            if k == "meas":
                return q[int(ast[1])].par
            if k == "mul":
                return (sym(ast[1]) if isinstance(ast[1], list) else ast[1]) * (sym(ast[2]) if isinstance(ast[2], list) else ast[2])
            if k == "add":
                return (sym(ast[1]) if isinstance(ast[1], list) else ast[1]) + (sym(ast[2]) if isinstance(ast[2], list) else ast[2])
            if k == "neg":
                return -sym(ast[1])
            raise ValueError("unknown symbolic node %r" % (k,))

        append_ops(q, ops, oplist, sym)
    return prog


def append_ops(q, ops, oplist, sym=None):
    for s in oplist:
        nm, params, modes = s[0], s[1], s[2]
        flags = s[3] if len(s) > 3 else {}
        op = spec.make_op(ops, nm, params, flags, sym)
        regs = tuple(q[m] for m in modes)
        op | (regs if len(regs) != 1 else regs[0])


def changed_scalar(ops1, ops2):
    """(name, old, new) of the single scalar parameter in which two op lists differ, else None"""
    if len(ops1) != len(ops2):
        return None
    hits = []
    for a, b in zip(ops1, ops2):
        if a[0] != b[0] or a[2] != b[2] or len(a[1]) != len(b[1]) or (a[3] or {}) != (b[3] or {}):
            return None
        for p, r in zip(a[1], b[1]):
            if p != r:
                if not (isinstance(p, float) and isinstance(r, float)):
                    return None
                hits.append((a[0], p, r))
    return hits[0] if len(hits) == 1 else None


def compare_all(ctx, case, A, B, symbolic, labels):
    """the four verdicts; None where equivalence() refused programs with measured parameters (documented ParameterError)"""
    from strawberryfields.parameters import ParameterError

    out = {}
    for name, fn in (("eq", lambda x, y: x == y), ("equivalence", lambda x, y: x.equivalence(y))):
        for direction, (x, y) in (("ab", (A, B)), ("ba", (B, A))):
            try:
                out[(name, direction)] = bool(fn(x, y))
            except ParameterError as exc:
                if symbolic and name == "equivalence":
                    out[(name, direction)] = None
                    continue
                ctx.note(case, True, labels)
                ctx.fail("compare_raises.%s.%s" % (name, type(exc).__name__), "%s(%s) raised %s: %s" % (name, case["edit"], type(exc).__name__, str(exc)[:100]))
                return None
            except Exception as exc:  # pylint: disable=broad-except
                ctx.note(case, True, labels)
                ctx.fail("compare_raises.%s.%s" % (name, type(exc).__name__), "%s(%s) raised %s: %s" % (name, case["edit"], type(exc).__name__, str(exc)[:100]))
                return None
    return out


def check_pair(ctx, case):
    labels = []
    res = apply_edit(case, labels)
    if res is None:
        ctx.note(case, False, ["edit_not_applicable"])
        return None
    n2, ops2 = res
    n1, ops1 = case["n"], case["ops"]
    measured = bool(case.get("measured"))
    symbolic = any(isinstance(p, list) for o in ops1 + ops2 for p in o[1])
    if measured and case["edit"] == "select_removed":
        # B samples where A projects: B has no conditional state to compare with, the programs differ by construction
        verdict = None if cond_state(n1, ops1) is None else (float("inf"), False)
        if verdict is not None:
            d, same = verdict
            labels += ["measured:conditioned", "measured:symbolic_param" if symbolic else "measured:numeric_only"]
        else:
            ctx.note(case, False, ["edit_not_applicable", "measured_value_used_before_measurement"])
            return None
    elif measured:
        verdict = states_equal(n1, ops1, ops2)
        if verdict is None:
            ctx.note(case, False, ["edit_not_applicable", "measured_value_used_before_measurement"])
            return None
        d, same = verdict
        labels += ["measured:conditioned"] + (["measured:symbolic_param"] if symbolic else ["measured:numeric_only"])
    else:
        d, same = maps_equal(n1, ops1, n2, ops2)
    try:
        A = build(n1, ops1)
        B = build(n2, ops2)
    except Exception as exc:  # pylint: disable=broad-except
        # building is not what this property is about (the decompositions run by the constructors of the matrix-valued
        # operations belong to C02/C17): such a case is counted, not judged
        ctx.note(case, False, ["edit_not_applicable", "construction_raised:" + type(exc).__name__])
        return None
    labels += ["edit:" + case["edit"], "maps_equal" if same else "maps_differ"]
    out = compare_all(ctx, case, A, B, symbolic, labels)
    if out is None:
        return None
    if out[("equivalence", "ab")] is None:
        labels.append("equivalence_refused_unmeasured_parameter")
    rep_eq = bool(out[("eq", "ab")] or out[("equivalence", "ab")])
    kw = case.get("kw")
    then_append = bool(case.get("then_append")) and not measured
    if kw:
        labels.append("kw:" + sorted(kw)[0])
    if then_append:
        labels.append("stateful:append_in_place")
    ctx.note(case, nontrivial=True, labels=labels + ["reported_equal" if rep_eq else "reported_different"])
    r = judge(ctx, case, out, d, same, ops1, ops2, labels)
    if r is not None:
        return r
    if kw and not symbolic:
        r = check_kwargs(ctx, case, A, B, kw, out, d, same, ops1, ops2)
        if r is not None:
            return r
    # reflexivity
    try:
        if not (A == A) or not A.equivalence(A) or not (B == B) or not B.equivalence(B):
            return ctx.fail("not_reflexive", "a program is not equal/equivalent to itself")
    except Exception as exc:  # pylint: disable=broad-except
        return ctx.fail("compare_raises.reflexive.%s" % type(exc).__name__, str(exc)[:100])
    if then_append:
        return check_in_place(ctx, case, A, B, n1, ops1, n2, ops2)
    return None


def judge(ctx, case, out, d, same, ops1, ops2, labels, tag=""):
    edit = case["edit"] + tag
    for name in ("eq", "equivalence"):
        if out[(name, "ab")] != out[(name, "ba")]:
            return ctx.fail("%s.not_symmetric" % name, "A %s B = %s but B %s A = %s (edit %s)" % (name, out[(name, "ab")], name, out[(name, "ba")], edit))
        if out[(name, "ab")] and not same:
            return ctx.fail("%s.unsound.%s" % (name, edit), "programs reported %s although their maps differ by %.3g (edit %s)" % ("equal" if name == "eq" else "equivalent", d, edit))
    # == compares parameters exactly (no tolerance is documented for it, unlike equivalence(atol=...)): programs it calls equal apply the same
    # numbers and their maps agree to rounding
    if out[("eq", "ab")] and d > 1e-9:
        return ctx.fail("eq.unsound_beyond_rounding.%s" % edit, "A == B is True although the maps differ by %.3g (edit %s): == has no tolerance" % (d, edit))
    if tag:
        return None
    if case["edit"] == "rebuild" and not (out[("eq", "ab")] and out[("equivalence", "ab")] in (True, None)):
        return ctx.fail("identical_rebuild_reported_different", "eq=%s equivalence=%s for an identical rebuild" % (out[("eq", "ab")], out[("equivalence", "ab")]))
    if case["edit"] == "swap_commuting" and out[("equivalence", "ab")] is False:
        return ctx.fail("equivalence.commuting_swap_reported_different", "swapping two adjacent commands on disjoint modes made the programs inequivalent")
    if case["edit"] in ("reorder_commuting", "permute") and "order:keeps_wires" in labels and out[("equivalence", "ab")] is False:
        return ctx.fail("equivalence.commuting_reorder_reported_different",
                        "a re-ordering that keeps the order of the commands on every wire made the programs inequivalent (edit %s)" % case["edit"])
    return None


def check_kwargs(ctx, case, A, B, kw, out, d, same, ops1, ops2):
    try:
        r_ab = bool(A.equivalence(B, **kw))
        r_ba = bool(B.equivalence(A, **kw))
    except Exception as exc:  # pylint: disable=broad-except
        return ctx.fail("compare_raises.equivalence_kw.%s" % type(exc).__name__, "equivalence(**%r) raised %s: %s" % (kw, type(exc).__name__, str(exc)[:100]))
    ch = changed_scalar(ops1, ops2)
    if "compare_params" in kw:
        if out[("equivalence", "ab")] and not r_ab:
            return ctx.fail("equivalence.compare_params_false_is_stricter", "equivalent with parameters compared, inequivalent with compare_params=False (edit %s)" % case["edit"])
        if ch is not None and ch[0] not in ("BSgate", "CXgate") and not r_ab:
            return ctx.fail("equivalence.compare_params_false_compares_parameters",
                            "only a parameter of %s changed (%r -> %r) but equivalence(compare_params=False) is False" % ch)
        return None
    if r_ab and not same:
        return ctx.fail("equivalence.unsound_with_kw.%s" % case["edit"], "equivalence(**%r) is True although the maps differ by %.3g" % (kw, d))
    if not kw.get("rtol") and r_ab != r_ba:
        return ctx.fail("equivalence.not_symmetric_with_kw", "equivalence(**%r): A~B = %s, B~A = %s" % (kw, r_ab, r_ba))
    if case["edit"] == "rebuild" and not r_ab:
        return ctx.fail("identical_rebuild_reported_different_with_kw", "equivalence(**%r) is False for an identical rebuild" % (kw,))
    if ch is not None:
        tol = kw.get("atol", 1e-6) + kw.get("rtol", 0.0) * max(abs(ch[1]), abs(ch[2]))
        if abs(ch[1] - ch[2]) > 10 * tol and r_ab:
            return ctx.fail("equivalence.tolerance_kw_ignored",
                            "parameter of %s changed by %.3g > 10*(atol + rtol*|b|) = %.3g, yet equivalence(**%r) is True" % (ch[0], abs(ch[1] - ch[2]), 10 * tol, kw))
    return None


def check_in_place(ctx, case, A, B, n1, ops1, n2, ops2):
    """B is extended in place after it has been compared: the verdicts must follow the program, not the first comparison"""
    from strawberryfields import ops

    ops3 = ops2 + [case["extra"]]
    with B.context as q:
        append_ops(q, ops, [case["extra"]])
    d3, same3 = maps_equal(n1, ops1, n2, ops3)
    out = compare_all(ctx, case, A, B, False, [])
    if out is None:
        return None
    r = judge(ctx, case, out, d3, same3, ops1, ops3, [], tag="+append_in_place")
    if r is not None:
        return r
    C = spec.build_program(n2, ops3)
    out = compare_all(ctx, case, B, C, False, [])
    if out is None:
        return None
    if not (out[("eq", "ab")] and out[("equivalence", "ab")]):
        return ctx.fail("identical_rebuild_reported_different.after_append_in_place",
                        "a program extended in place vs the same commands built at once: eq=%s equivalence=%s" % (out[("eq", "ab")], out[("equivalence", "ab")]))
    return None


SUBS = [
    Sub("edit_pairs", check=check_pair, strategy=lambda ctx: pair_case(), examples={"quick": 820, "thorough": 15000},
        shards={"quick": 4, "thorough": 16}, rule="labelled single-edit pairs of Gaussian programs; soundness, symmetry, reflexivity, rebuild, commuting swap / "
        "re-linearisation, equivalence() keyword options, comparison after an in-place extension"),
    Sub("measured_pairs", check=check_pair, strategy=lambda ctx: meas_case(), examples={"quick": 450, "thorough": 7000},
        shards={"quick": 2, "thorough": 8}, rule="labelled single-edit pairs of programs with post-selected homodyne/heterodyne measurements and "
        "measured parameters; the oracle is the conditional output state on a generic probe input"),
]

MANIFEST = {
    "technique": "Hypothesis metamorphic testing over labelled program edits with a refsim oracle deciding whether the maps really differ",
    "text": ("For every generated pair the oracle computes whether the two programs are the same phase-space map; == and equivalence() must "
             "never report equal/equivalent for pairs whose maps differ (prefixes, daggered variants, moved or swapped targets, re-ordered "
             "overlapping commands, parameter and matrix-argument changes above the comparison tolerance, measured parameters with another "
             "gain or source), must be reflexive and symmetric, accept identical rebuilds and every re-ordering that keeps the order on "
             "each wire, honour the documented tolerance options, follow programs that are extended in place, and never raise on "
             "well-formed programs."),
}
