"""C18 - programs reported equal or equivalent really compute the same thing.

Pairs (A, B) are derived from one generated Gaussian base program by a labelled edit.  The oracle is refsim:
whether A and B are the same phase-space map is *computed*, never assumed from the edit.

  soundness      A == B or A.equivalence(B) reported True  ==>  the maps are equal (to 1e-4; equivalence itself uses atol 1e-6)
  algebra        reflexive; symmetric; an identical rebuild is equal and equivalent; swapping two adjacent commands on disjoint
                 modes keeps programs equivalent
  robustness     comparing two well-formed programs never raises
"""
from __future__ import annotations

import copy

import numpy as np
from hypothesis import strategies as st

from vf import gen, refsim, spec
from vf.core import Sub

RULE = ("base program: 1..7 Gaussian commands (incl. .H, two-mode gates on ordered targets, Interferometer with matrix argument) on "
        "1..4 modes; partner = base after ONE labelled edit (rebuild, append, drop last, flip dagger, change a parameter by 1e-9/1e-3/1, "
        "move to another mode, swap targets, swap adjacent disjoint commands, larger register, unrelated program); non-trivial = the "
        "edit was applicable and the oracle determined whether the maps differ")
ASSUMPTIONS = [
    "two programs 'compute the same thing' iff their refsim maps (X, Y, d) agree to 1e-4 (parameter edits of 1e-9 may legitimately be "
    "reported equivalent because equivalence() compares with atol=1e-6)",
    "only the soundness direction is demanded of == and equivalence() (they may report 'different' for equal maps), plus reflexivity, "
    "symmetry, identical rebuilds and commuting swaps",
]
REQUIRED_LABELS = {"all": ["edit:rebuild", "edit:drop_last", "edit:flip_dagger", "edit:param_1e-3", "edit:move_mode", "edit:swap_targets",
                           "edit:swap_commuting", "edit:param_0.0003", "edit:param_1e-5", "maps_differ", "maps_equal", "reported_equal", "reported_different"]}

ALPH = ["Dgate", "Sgate", "Rgate", "BSgate", "S2gate", "MZgate", "CXgate", "CZgate", "Xgate", "Pgate", "Fouriergate", "LossChannel",
        "Coherent", "Squeezed", "Vacuum", "Thermal", "sMZgate"]
EDITS = ["rebuild", "append", "drop_last", "flip_dagger", "param_1e-9", "param_1e-3", "param_1", "move_mode", "swap_targets",
         "swap_commuting", "bigger_register", "unrelated", "param_0.0003", "param_1e-5"]


def selftest():
    refsim.selftest()


@st.composite
def pair_case(draw):
    n = draw(st.integers(1, 4))
    ops_ = draw(gen.op_list(n, ALPH, "ps", 1, 7))
    if n >= 2 and draw(st.integers(0, 4)) == 0:
        k = draw(st.integers(2, n))
        modes = list(draw(st.permutations(list(range(n))))[:k])
        ops_.insert(draw(st.integers(0, len(ops_))), ["Interferometer", [spec.enc_matrix(draw(gen.unitary(k))[1])], modes, {}])
    edit = draw(st.sampled_from(EDITS))
    if n >= 2 and edit in ("swap_targets", "rebuild", "flip_dagger") and draw(st.booleans()):
        # a beamsplitter at the special angles equivalence() treats separately (50:50, phase pi/2: symmetric under a swap of its targets)
        th = draw(st.sampled_from([np.pi / 4, -np.pi / 4, 3 * np.pi / 4, 5 * np.pi / 4, 0.3]))
        ph = draw(st.sampled_from([np.pi / 2, 0.0, -np.pi / 2, 3 * np.pi / 2, 0.3, np.pi]))
        pos = draw(st.integers(0, len(ops_)))
        ops_.insert(pos, ["BSgate", [float(th), float(ph)], list(draw(st.permutations(list(range(n))))[:2]), {}])
        special_idx = [i for i, o in enumerate(ops_) if len(o[2]) == 2].index(pos)
    else:
        special_idx = None
    idx = draw(st.integers(0, len(ops_) - 1))
    if special_idx is not None and edit == "swap_targets" and draw(st.integers(0, 3)) > 0:
        idx = special_idx  # the edit hits the special beamsplitter
    extra = draw(gen.op_spec(n, ALPH, "ps"))
    other = draw(gen.op_list(n, ALPH, "ps", 1, 5))
    newmode = draw(st.integers(0, n - 1))
    return {"n": n, "ops": ops_, "edit": edit, "idx": idx, "extra": extra, "other": other, "newmode": newmode}


def apply_edit(case):
    """returns (n2, ops2) or None if the edit does not apply"""
    n, ops_, edit, idx = case["n"], case["ops"], case["edit"], case["idx"]
    o2 = copy.deepcopy(ops_)
    if edit == "rebuild":
        return n, o2
    if edit == "append":
        return n, o2 + [case["extra"]]
    if edit == "drop_last":
        return (n, o2[:-1]) if len(o2) >= 1 else None
    if edit == "flip_dagger":
        cands = [i for i, o in enumerate(o2) if o[0] in gen.GATES]
        if not cands:
            return None
        o = o2[cands[idx % len(cands)]]
        o[3] = dict(o[3])
        o[3]["H"] = not o[3].get("H", False)
        return n, o2
    if edit.startswith("param_"):
        delta = float(edit.split("_")[1])
        cands = [i for i, o in enumerate(o2) if o[1] and isinstance(o[1][0], float)]
        if not cands:
            return None
        o = o2[cands[idx % len(cands)]]
        j = idx % len(o[1])
        if not isinstance(o[1][j], float):
            j = 0
        val = o[1][j] + delta
        if o[0] in ("LossChannel",) and not 0 <= val <= 1:
            val = o[1][j] - delta
            if not 0 <= val <= 1:
                return None
        if o[0] in ("Thermal",) and val < 0:
            return None
        o[1][j] = val
        return n, o2
    if edit == "move_mode":
        cands = [i for i, o in enumerate(o2) if len(o[2]) == 1]
        if not cands or n < 2:
            return None
        o = o2[cands[idx % len(cands)]]
        nm = case["newmode"]
        if nm == o[2][0]:
            nm = (nm + 1) % n
        o[2] = [nm]
        return n, o2
    if edit == "swap_targets":
        cands = [i for i, o in enumerate(o2) if len(o[2]) == 2]
        if not cands:
            return None
        o = o2[cands[idx % len(cands)]]
        o[2] = [o[2][1], o[2][0]]
        return n, o2
    if edit == "swap_commuting":
        cands = [i for i in range(len(o2) - 1) if not set(o2[i][2]) & set(o2[i + 1][2])]
        if not cands:
            return None
        i = cands[idx % len(cands)]
        o2[i], o2[i + 1] = o2[i + 1], o2[i]
        return n, o2
    if edit == "bigger_register":
        return n + 1, o2
    if edit == "unrelated":
        return n, copy.deepcopy(case["other"])
    return None


def maps_equal(n1, ops1, n2, ops2):
    if n1 != n2:
        n = max(n1, n2)
    else:
        n = n1
    a = spec.ref_run(n, ops1, 2.0)
    b = spec.ref_run(n, ops2, 2.0)
    d = max(float(np.max(np.abs(a.X - b.X))), float(np.max(np.abs(a.Y - b.Y))), float(np.max(np.abs(a.d - b.d))))
    return d, d < 1e-4 * (1 + float(np.max(np.abs(a.X))))


def check_pair(ctx, case):
    res = apply_edit(case)
    if res is None:
        ctx.note(case, False, ["edit_not_applicable"])
        return None
    n2, ops2 = res
    n1, ops1 = case["n"], case["ops"]
    d, same = maps_equal(n1, ops1, n2, ops2)
    A = spec.build_program(n1, ops1)
    B = spec.build_program(n2, ops2)
    labels = ["edit:" + case["edit"], "maps_equal" if same else "maps_differ"]
    out = {}
    for name, fn in (("eq", lambda x, y: x == y), ("equivalence", lambda x, y: x.equivalence(y))):
        for direction, (x, y) in (("ab", (A, B)), ("ba", (B, A))):
            try:
                out[(name, direction)] = bool(fn(x, y))
            except Exception as exc:  # pylint: disable=broad-except
                ctx.note(case, True, labels)
                return ctx.fail("compare_raises.%s.%s" % (name, type(exc).__name__), "%s(%s) raised %s: %s" % (name, case["edit"], type(exc).__name__, str(exc)[:100]))
    rep_eq = out[("eq", "ab")] or out[("equivalence", "ab")]
    ctx.note(case, nontrivial=True, labels=labels + ["reported_equal" if rep_eq else "reported_different"])
    for name in ("eq", "equivalence"):
        if out[(name, "ab")] != out[(name, "ba")]:
            return ctx.fail("%s.not_symmetric" % name, "A %s B = %s but B %s A = %s (edit %s)" % (name, out[(name, "ab")], name, out[(name, "ba")], case["edit"]))
        if out[(name, "ab")] and not same:
            return ctx.fail("%s.unsound.%s" % (name, case["edit"]), "programs reported %s although their maps differ by %.3g (edit %s)" % ("equal" if name == "eq" else "equivalent", d, case["edit"]))
    # == compares parameters exactly (no tolerance is documented for it, unlike equivalence(atol=...)): programs it calls equal apply the same
    # numbers and their maps agree to rounding
    if out[("eq", "ab")] and d > 1e-9:
        return ctx.fail("eq.unsound_beyond_rounding.%s" % case["edit"], "A == B is True although the maps differ by %.3g (edit %s): == has no tolerance" % (d, case["edit"]))
    if case["edit"] == "rebuild" and not (out[("eq", "ab")] and out[("equivalence", "ab")]):
        return ctx.fail("identical_rebuild_reported_different", "eq=%s equivalence=%s for an identical rebuild" % (out[("eq", "ab")], out[("equivalence", "ab")]))
    if case["edit"] == "swap_commuting" and not out[("equivalence", "ab")]:
        return ctx.fail("equivalence.commuting_swap_reported_different", "swapping two adjacent commands on disjoint modes made the programs inequivalent")
    # reflexivity
    try:
        if not (A == A) or not A.equivalence(A) or not (B == B) or not B.equivalence(B):
            return ctx.fail("not_reflexive", "a program is not equal/equivalent to itself")
    except Exception as exc:  # pylint: disable=broad-except
        return ctx.fail("compare_raises.reflexive.%s" % type(exc).__name__, str(exc)[:100])
    return None


SUBS = [
    Sub("edit_pairs", check=check_pair, strategy=lambda ctx: pair_case(), examples={"quick": 1500, "thorough": 15000},
        shards={"quick": 2, "thorough": 16}, rule="labelled single-edit pairs of Gaussian programs; soundness, symmetry, reflexivity, rebuild, commuting swap"),
]

MANIFEST = {
    "technique": "Hypothesis metamorphic testing over labelled program edits with a refsim oracle deciding whether the maps really differ",
    "text": ("For every generated pair the oracle computes whether the two programs are the same phase-space map; == and equivalence() must "
             "never report equal/equivalent for pairs whose maps differ (prefixes, daggered variants, moved or swapped targets, parameter "
             "changes above the comparison tolerance), must be reflexive and symmetric, accept identical rebuilds and commuting swaps, and "
             "never raise on well-formed programs."),
}
