"""C20 - the trainable-GBS and chemistry helpers are numerically self-consistent.

Sub-checks
  kl_grad          KL.grad vs Richardson finite differences of KL.evaluate (PNR mode); KL.evaluate vs the oracle's own
                   -mean(log P) with P from a brute-force hafnian; data handed over as int or float array; __call__
  stochastic_grad  Stochastic.grad vs finite differences of Stochastic.evaluate on one fixed sample set;
                   Stochastic.evaluate vs the documented reparametrisation formula.  The set reaches the model through
                   add_A_init_samples / the constructor / two stacked batches / not at all, and the cost asks for all, fewer
                   or more rows than stored (top-up by VGBS.generate_samples, seeded, once): bookkeeping of the set
  jacobian         Exp / ExpFeatures: weights == exp(-F theta), jacobian == finite differences of weights
  model_probs      VGBS as a model of a Gaussian state: A_init reproduces the requested mean photons / clicks, W and A as
                   documented, A_to_cov vs the refsim state of A (up to a global phase rotation, see ASSUMPTIONS),
                   prob_photon_sample vs brute-force hafnian and vs thewalrus.probabilities(reference state), prob_click
                   normalised and equal to inclusion-exclusion over vacuum probabilities of the reference state,
                   mean_photons_by_mode / mean_clicks_by_mode / n_mean vs the reference state; generate_samples (hbar = 2):
                   click patterns are 0/1, PNR samples of the pure state have an even photon number
  similarity       prob_orbit_exact / prob_event_exact vs brute-force sums over the reference state (with loss, loss = 1 and
                   n_mean = 0 included); prob_orbit_mc / prob_event_mc inside the rigorous interval cardinality*[min p, max p]
                   and equal to the exact value on complete graphs; feature_vector_orbits / feature_vector_events (exact:
                   brute force, in request order; Monte Carlo: equal to prob_*_mc under the same numpy seed)
  vibronic         gbs_params: U2 exp(r) U1 == Wp^1/2 Ud W^-1/2, orthogonality, alpha, thermal t; VibronicTransition on
                   the gaussian backend == refsim D(alpha) R(U2) S(r) R(U1) on a displaced squeezed input, with the
                   parameters of gbs_params and with directly supplied complex unitaries / displacements; energies
  dynamics         TimeEvolution(w, t): Fock amplitudes only acquire the phases exp(-i 2 pi c w t n), additive in t, total
                   photon-number distribution conserved inside Ul^T .. Ul; gaussian backend == refsim rotation
  duschinsky       utils.duschinsky: U = Lf^T Li, delta = l^-1 d with hand-typed constants, q_f = U q_i + d
  marginals        utils.marginals vs the oracle's own photon statistics of the reduced reference state; utils.prob == frequency
  samplers         vibronic.sample / dynamics.sample_* : shape, non-negative integers, photon-number bookkeeping that
                   holds deterministically (seeded numpy): loss = 1 -> all zeros; t = 0 or Ul a permutation -> the evolution
                   is diagonal (Fock input is returned unchanged, TMSV halves are equal mode by mode, vacuum modes of a
                   coherent input stay empty); alpha = 0 -> halves of a vibronic sample have equal parity; only two-mode
                   squeezers -> halves equal; no statistics
"""
from __future__ import annotations

import collections
import itertools
import math

import numpy as np
from hypothesis import strategies as st

from vf import gen, refsim, sfrun, spec
from vf.core import Sub

RULE = ("Hypothesis-generated symmetric real matrices on 2..5 modes (unweighted/weighted graphs, self-loops, disconnected, "
        "low rank, signed), n_mean in (0.1,3], Exp/ExpFeatures embeddings with drawn feature matrices, theta in [-1,1]^d "
        "(halved until the largest singular value of A(theta) is <= 0.9), data rows built from pairs of adjacent vertices; "
        "molecules: frequencies 100..4000 cm^-1, Duschinsky matrices (identity, permutation, orthogonal, perturbed "
        "orthogonal), displacements, temperatures, times 0..100 fs. Non-trivial: gradient norm > 1e-6 and matrix not "
        "diagonal (train), Duschinsky matrix not the identity (vibronic), >= 2 modes with distinct frequencies and t != 0 "
        "(dynamics); distinct = distinct JSON. Stochastic sample sets: pre-loaded by add/constructor/two batches/none, n_samples "
        "below, at and above the stored number; samplers: loss in {0, 0.3, 1}, t = 0 with non-symmetric Ul, permutation Ul, "
        "alpha = 0, pure two-mode squeezing; VibronicTransition also with complex unitaries and displacements")
ASSUMPTIONS = [
    "finite differences: central, steps h and h/2 with h=2e-3, Richardson extrapolated; gradients must agree to "
    "1e-6*(1+max|g|) (unchanged tree, 5000 cases: <= 1.1e-8), jacobians to 1e-8*(1+max|J|) (measured 4e-13)",
    "threshold-mode gradients are not compared (the formula is approximate there, excluded by the property text)",
    "A_to_cov(A) is compared with the refsim state of A (squeezers -atanh(lambda_i), interferometer of eigenvectors) up to "
    "ONE global phase rotation of all modes: the repo (and its own unit test test_A_to_cov) returns the state rotated by "
    "pi/4 (thewalrus Amat of it is -iA), which has identical photon statistics; N = <a^dag a> must agree, M = <a a> up to "
    "one unit complex factor (1e-8; measured 3e-15)",
    "complex adjacency matrices are outside the domain (A_to_cov yields a complex matrix, thewalrus rejects it with ValueError)",
    "parameter vectors are scaled down until the largest singular value of A(theta) is <= 0.9 (the docstrings require <= 1)",
    "reference probabilities: pure states sqrt(det(1-A^2)) haf(A_n)^2/n! with the oracle's own recursive hafnian and "
    "thewalrus.quantum.probabilities (state-vector path) of the refsim state; mixed/displaced states: own loop-hafnian "
    "formula derived from the Husimi function (self-tested against thermal/Poisson/squeezed closed forms and thewalrus); "
    "thewalrus.probabilities is NOT used for nearly pure mixed states (it treats purity > 1-1e-5 as pure)",
    "tolerances: probabilities 1e-9 absolute (measured <= 3e-15), similarity 1e-8 (3e-12), marginals 5e-8 (5e-10), means 1e-8 "
    "relative (3e-15), n_mean(0) and A_init vs request 1e-6 relative (thewalrus root finder, measured 1e-11), costs 1e-7 (1e-12), "
    "chemistry relations 1e-9..1e-7 (measured <= 6e-14)",
    "physical constants typed by hand (SI 2019 exact h, c, k; CODATA 2022 m_u) - agreement demanded to 1e-7 relative",
    "Monte-Carlo helpers: only the deterministic interval bound cardinality*[min p, max p] and the complete-graph identity, "
    "no statistics; samplers: only structure and photon-number bookkeeping that holds with certainty (seeded numpy)",
    "sample-set bookkeeping of VGBS/Stochastic: get_A_init_samples(n) must return n rows taken from the stored set, the same rows on "
    "every call; pre-loaded rows are never dropped; n > stored adds rows (once) that are PNR samples (even photon number: the state "
    "of a real symmetric A is a pure zero-mean Gaussian state).  VGBS.generate_samples is only exercised at hbar = 2 "
    "(finding F73, fixed in /repo: thewalrus 0.22 samplers ignore hbar in the covariance)",
    "sampler identities used with certainty: Ul exp(-i w t n) Ul^T is diagonal when t = 0 (Ul orthogonal to 1e-15: a deviating "
    "sample has probability < 1e-24) or Ul is a signed permutation; loss = 1 means LossChannel(0)",
    "prob_event_exact on an EMPTY event (photon_number > modes * max_count_per_mode) raising ValueError is treated as a "
    "rejection (event_to_sample documents a ValueError for it); a non-empty event must be computed",
]
REQUIRED_LABELS = {"all": ["kl_grad", "stochastic_grad", "jacobian", "prob_click_norm", "prob_pnr", "vibronic", "dynamics",
                           "emb:Exp", "emb:ExpFeatures", "duschinsky", "marginals", "similarity",
                           # input classes added by the generator audit (each >= 90 per quick run at seeds 1..5)
                           "data:float", "generate_samples", "energies", "vt_direct", "feature_vectors", "dyn:t=0", "second_call_loss=1"]}

# hand-typed constants (SI 2019 exact values; m_u CODATA 2022, differs from CODATA 2018 by 1.4e-9 relative)
H_PLANCK = 6.62607015e-34
C_LIGHT = 299792458.0
K_BOLTZ = 1.380649e-23
M_U = 1.66053906892e-27

SMAX = 0.9  # cap of the largest singular value of A(theta) in generated cases


# =============================================================================================
# oracle helpers (no strawberryfields code)
# =============================================================================================
def _track(ctx, key, val):
    val = float(val)
    if val > ctx.info.get(key, 0.0):
        ctx.info[key] = val


def own_haf(M, idx):
    """hafnian of M restricted to the index list idx (indices may repeat; M[i, i] is used between copies)"""
    if not idx:
        return 1.0
    if len(idx) % 2:
        return 0.0
    i, rest = idx[0], idx[1:]
    tot = 0.0
    for k, j in enumerate(rest):
        if M[i, j] != 0:
            tot += M[i, j] * own_haf(M, rest[:k] + rest[k + 1:])
    return tot


def pnr_prob(A, pattern):
    """P(n) of the pure Gaussian state exp(a^dag A a^dag / 2)|0>, real symmetric A"""
    m = len(A)
    idx = [k for k in range(m) for _ in range(int(pattern[k]))]
    z = math.sqrt(max(np.linalg.det(np.eye(m) - A @ A), 0.0))
    den = 1.0
    for k in pattern:
        den *= math.factorial(int(k))
    return z * own_haf(A, idx) ** 2 / den


def own_lhaf(M, gamma, idx):
    """loop hafnian of M restricted to the index list idx, gamma on the loops"""
    if not idx:
        return 1.0
    i, rest = idx[0], idx[1:]
    tot = gamma[i] * own_lhaf(M, gamma, rest) if gamma[i] != 0 else 0.0
    for k, j in enumerate(rest):
        if M[i, j] != 0:
            tot += M[i, j] * own_lhaf(M, gamma, rest[:k] + rest[k + 1:])
    return tot


def gauss_prob(mu, V, pattern, hbar=2.0):
    """<n|rho|n> of an arbitrary Gaussian state (mu, V in (x.., p..) order), derived from the Husimi function:
    beta = (alpha, alpha*), sigma = cov(beta), Q = sigma + 1/2, A = X (1 - Q^-1), gamma = mean(beta)^dag Q^-1,
    p(n) = exp(-gamma.mean(beta)/2) / (n! sqrt(det Q)) * lhaf(A, gamma)[k and k+m repeated n_k times]"""
    m = len(mu) // 2
    T = np.block([[np.eye(m), 1j * np.eye(m)], [np.eye(m), -1j * np.eye(m)]])
    beta = T @ np.asarray(mu, float) / math.sqrt(2 * hbar)
    Q = T @ np.asarray(V, float) @ T.conj().T / (2 * hbar) + np.eye(2 * m) / 2
    Qi = np.linalg.inv(Q)
    X = np.block([[np.zeros((m, m)), np.eye(m)], [np.eye(m), np.zeros((m, m))]])
    A = X @ (np.eye(2 * m) - Qi)
    gamma = beta.conj() @ Qi
    idx = [k for k in range(m) for _ in range(int(pattern[k]))] + [k + m for k in range(m) for _ in range(int(pattern[k]))]
    den = 1.0
    for k in pattern:
        den *= math.factorial(int(k))
    p0 = np.exp(-0.5 * (gamma @ beta)) / np.sqrt(np.linalg.det(Q))
    return float(np.real(p0 * own_lhaf(A, gamma, idx) / den))


def mean_photons_of(A):
    """diag of N = A^2 (1 - A^2)^-1 (real symmetric A)"""
    m = len(A)
    return np.diag(A @ A @ np.linalg.inv(np.eye(m) - A @ A)).copy()


def mean_clicks_of(A):
    """1 - <0|rho_k|0> per mode: p0 = ((1+N_kk)^2 - M_kk^2)^-1/2 with N = A^2(1-A^2)^-1, M = A(1-A^2)^-1"""
    m = len(A)
    inv = np.linalg.inv(np.eye(m) - A @ A)
    N = np.diag(A @ A @ inv)
    M = np.diag(A @ inv)
    return 1.0 - 1.0 / np.sqrt((1 + N) ** 2 - M ** 2)


def _bisect(f, lo, hi):
    """root of an increasing function on (lo, hi)"""
    for _ in range(200):
        mid = 0.5 * (lo + hi)
        if f(mid) > 0:
            hi = mid
        else:
            lo = mid
    return 0.5 * (lo + hi)


def own_scale(A, n_mean, threshold):
    """x such that the state of x*A has n_mean mean photons (clicks if threshold)"""
    smax = float(np.linalg.svd(A, compute_uv=False)[0])
    if threshold:
        return _bisect(lambda x: float(np.sum(mean_clicks_of(x * A))) - n_mean, 0.0, (1 - 1e-13) / smax)
    return _bisect(lambda x: float(np.sum(mean_photons_of(x * A))) - n_mean, 0.0, (1 - 1e-13) / smax)


def ref_from_A(A, hbar=2.0):
    """refsim state with adjacency matrix A (real symmetric, |eig| < 1): S(-atanh lambda_i) then R(O), A = O L O^T"""
    m = len(A)
    lam, O = np.linalg.eigh(A)
    ref = refsim.Ref(m, hbar)
    for i, l in enumerate(lam):
        ref.Sgate(-float(np.arctanh(l)), 0.0, i)
    ref.Interferometer(O, list(range(m)))
    return ref


def NM_of(V, hbar):
    """(N, M) of a zero-mean covariance matrix in (x.., p..) order"""
    k = len(V) // 2
    V = np.asarray(V) / (hbar / 2)
    xx, pp, xp = V[:k, :k], V[k:, k:], V[:k, k:]
    N = (xx + pp + 1j * (xp - xp.T)) / 4 - np.eye(k) / 2
    M = (xx - pp + 1j * (xp + xp.T)) / 4
    return N, M


def vac_prob(ref, modes):
    """<0|rho_modes|0> of a zero-mean Gaussian state: det((V/(hbar/2) + 1)/2)^-1/2"""
    if not modes:
        return 1.0
    _, V = ref.reduced(list(modes))
    return float(1.0 / np.sqrt(np.linalg.det((V / (ref.h / 2) + np.eye(len(V))) / 2)))


def click_prob(ref, pattern):
    """threshold-detector probability by inclusion-exclusion over vacuum probabilities"""
    m = ref.n
    S = [k for k in range(m) if pattern[k]]
    R = [k for k in range(m) if not pattern[k]]
    tot = 0.0
    for j in range(len(S) + 1):
        for Z in itertools.combinations(S, j):
            tot += (-1) ** j * vac_prob(ref, sorted(R + list(Z)))
    return tot


def patterns_upto(m, nmax):
    return [p for p in itertools.product(range(nmax + 1), repeat=m) if sum(p) <= nmax]


def richardson(f, x, h=2e-3):
    """d f / d x_i (f scalar or vector valued): central differences with steps h, h/2, extrapolated"""
    x = np.asarray(x, float)
    cols = []
    for i in range(len(x)):
        e = np.zeros(len(x))
        e[i] = 1.0
        d1 = (np.asarray(f(x + h * e)) - np.asarray(f(x - h * e))) / (2 * h)
        d2 = (np.asarray(f(x + h / 2 * e)) - np.asarray(f(x - h / 2 * e))) / h
        cols.append((4 * d2 - d1) / 3)
    return np.stack(cols, axis=-1)


def selftest():
    refsim.selftest()
    # hafnian: K4 has 3 perfect matchings; repeated index uses the diagonal
    assert own_haf(np.ones((4, 4)), [0, 1, 2, 3]) == 3.0
    assert own_haf(np.array([[0.5, 2.0], [2.0, 0.0]]), [0, 0]) == 0.5
    assert own_haf(np.array([[0.5, 2.0], [2.0, 0.0]]), [0, 0, 1, 1]) == 2 * 2.0 * 2.0 + 0.5 * 0.0
    # two-mode squeezed vacuum: A = [[0,t],[t,0]], tanh r = t: P(n,n) = t^2n/cosh^2 r, cov blocks cosh 2r, +-sinh 2r
    t = 0.6
    r = np.arctanh(t)
    A = np.array([[0.0, t], [t, 0.0]])
    for n in range(4):
        assert abs(pnr_prob(A, [n, n]) - t ** (2 * n) / np.cosh(r) ** 2) < 1e-14
    assert pnr_prob(A, [1, 0]) == 0.0
    ref = ref_from_A(A, 2.0)
    c, s = np.cosh(2 * r), np.sinh(2 * r)
    assert np.allclose(ref.V, np.array([[c, s, 0, 0], [s, c, 0, 0], [0, 0, c, -s], [0, 0, -s, c]]), atol=1e-12)
    assert np.allclose(mean_photons_of(A), np.sinh(r) ** 2) and np.allclose(mean_clicks_of(A), 1 - 1 / np.cosh(r) ** 2)
    assert abs(vac_prob(ref, [0]) - 1 / np.cosh(r) ** 2) < 1e-12 and abs(vac_prob(ref, [0, 1]) - 1 / np.cosh(r) ** 2) < 1e-12
    assert abs(click_prob(ref, [1, 1]) - (1 - 1 / np.cosh(r) ** 2)) < 1e-12 and abs(click_prob(ref, [1, 0])) < 1e-12
    # single-mode squeezed vacuum A = [[t]]: <n> = sinh^2 r, p0 = 1/cosh r, P(2) = t^2/(2 cosh r)
    A1 = np.array([[t]])
    assert abs(mean_photons_of(A1)[0] - np.sinh(r) ** 2) < 1e-12 and abs(mean_clicks_of(A1)[0] - (1 - 1 / np.cosh(r))) < 1e-12
    assert abs(pnr_prob(A1, [2]) - t ** 2 / (2 * np.cosh(r))) < 1e-14
    # generic real symmetric A: refsim construction vs the closed forms N = A^2(1-A^2)^-1, M = A(1-A^2)^-1 and vs thewalrus
    from thewalrus.quantum import Amat, probabilities

    A3 = np.array([[0.2, 0.3, 0.1], [0.3, -0.1, 0.25], [0.1, 0.25, 0.0]])
    ref = ref_from_A(A3, 2.0)
    inv = np.linalg.inv(np.eye(3) - A3 @ A3)
    N, M = NM_of(ref.V, 2.0)
    assert np.allclose(N, A3 @ A3 @ inv, atol=1e-12) and np.allclose(M, A3 @ inv, atol=1e-12)
    assert np.allclose(Amat(ref.V)[:3, :3], A3, atol=1e-12)
    p = probabilities(ref.mu, ref.V, 4)
    for pat in [(0, 0, 0), (1, 1, 0), (2, 0, 0), (1, 2, 1), (0, 1, 3)]:
        assert abs(p[pat] - pnr_prob(A3, pat)) < 1e-12
    assert abs(np.sum(mean_photons_of(own_scale(A3, 1.3, False) * A3)) - 1.3) < 1e-10
    assert abs(np.sum(mean_clicks_of(own_scale(A3, 0.8, True) * A3)) - 0.8) < 1e-10
    # gauss_prob: thermal, coherent (Poisson), squeezed vacuum closed forms at two values of hbar; generic state vs thewalrus
    from thewalrus.quantum import density_matrix_element

    for hb in (2.0, 0.7):
        nb = 0.8
        for n in range(4):
            assert abs(gauss_prob(np.zeros(2), (2 * nb + 1) * hb / 2 * np.eye(2), [n], hb) - nb ** n / (1 + nb) ** (n + 1)) < 1e-13
        al = 0.7 - 0.4j
        mu1 = np.sqrt(2 * hb) * np.array([al.real, al.imag])
        for n in range(5):
            assert abs(gauss_prob(mu1, hb / 2 * np.eye(2), [n], hb) - np.exp(-abs(al) ** 2) * abs(al) ** (2 * n) / math.factorial(n)) < 1e-13
        rr = refsim.Ref(1, hb)
        rr.Sgate(0.5, 0.3, 0)
        assert abs(gauss_prob(rr.mu, rr.V, [2], hb) - np.tanh(0.5) ** 2 / (2 * np.cosh(0.5))) < 1e-13
        assert abs(gauss_prob(rr.mu, rr.V, [1], hb)) < 1e-13
        rr = refsim.Ref(2, hb)
        rr.Thermal(0.3, 0)
        rr.Sgate(0.4, 0.2, 0)
        rr.Dgate(0.5, 0.7, 1)
        rr.BSgate(0.6, 0.9, 0, 1)
        rr.Sgate(-0.3, 1.1, 1)
        rr.LossChannel(0.8, 0)
        for pat in [(0, 0), (1, 0), (1, 2), (2, 2), (3, 1)]:
            assert abs(gauss_prob(rr.mu, rr.V, pat, hb) - density_matrix_element(rr.mu, rr.V, list(pat), list(pat), hbar=hb).real) < 1e-12
    assert abs(gauss_prob(ref.mu, ref.V, (1, 2, 1)) - pnr_prob(A3, (1, 2, 1))) < 1e-13
    # duschinsky docstring example
    d = np.array([-0.28933191, 0, 0, 0.95711104, 0, 0]) * np.sqrt([11.0093] * 3 + [1.0078] * 3) @ (
        np.array([-0.0236, 0, 0, 1.2236, 0, 0]) - np.array([0.0, 0, 0, 1.4397, 0, 0]))
    assert abs(own_linv(np.array([1363.2]))[0] * d - (-1.17623073)) < 1e-7
    return True


def own_linv(wf):
    """l^-1_kk = (2 pi omega_k c / hbar)^1/2 for omega in cm^-1, lengths in Angstrom, masses in amu"""
    wf = np.asarray(wf, float)
    return 2 * np.pi * np.sqrt(wf * 100.0 * C_LIGHT / H_PLANCK) * 1e-10 * np.sqrt(M_U)


# =============================================================================================
# strategies: matrices, embeddings, parameters
# =============================================================================================
WT = gen.fl(0.05, 1.0)


@st.composite
def adjacency(draw, m, signed=False):
    kind = draw(st.sampled_from(["unweighted", "unweighted", "weighted", "weighted", "loops", "disconnected", "lowrank"]))
    if kind == "disconnected" and m == 2:
        kind = "loops"
    A = np.zeros((m, m))
    if kind == "lowrank":
        k = draw(st.integers(1, m - 1))
        vals = draw(st.lists(st.one_of(st.just(0.0), WT, WT), min_size=m * k, max_size=m * k))
        B = np.array(vals).reshape(m, k)
        A = B @ B.T
    else:
        pairs = [(i, j) for i in range(m) for j in range(i + 1, m)]
        if kind == "disconnected":
            k = draw(st.integers(1, m - 1))
            pairs = [(i, j) for (i, j) in pairs if (i < k) == (j < k)]
        present = draw(st.lists(st.booleans(), min_size=len(pairs), max_size=len(pairs)))
        for (i, j), p in zip(pairs, present):
            if p:
                A[i, j] = A[j, i] = 1.0 if kind == "unweighted" else draw(WT)
        if kind == "loops":
            for i in range(m):
                if draw(st.booleans()):
                    A[i, i] = draw(WT)
    if not np.any(A - np.diag(np.diag(A)) > 0):
        i, j = (0, 1) if kind != "disconnected" else (m - 2, m - 1)
        A[i, j] = A[j, i] = draw(WT)
    if signed:
        for i in range(m):
            for j in range(i, m):
                if A[i, j] != 0 and draw(st.booleans()):
                    A[i, j] = A[j, i] = -A[i, j]
    return A


@st.composite
def embedding_spec(draw, m):
    if draw(st.booleans()):
        return {"emb": "Exp", "d": m}
    d = draw(st.integers(1, 4))
    F = np.array(draw(st.lists(gen.fl(-1.0, 1.0), min_size=m * d, max_size=m * d))).reshape(m, d)
    return {"emb": "ExpFeatures", "d": d, "F": spec.enc_matrix(F)}


def feature_matrix(case):
    return np.eye(case["m"]) if case["emb"] == "Exp" else spec.dec_param(case["F"])


def make_embedding(case):
    from strawberryfields.apps.train import embed

    return embed.Exp(case["m"]) if case["emb"] == "Exp" else embed.ExpFeatures(spec.dec_param(case["F"]))


def own_A_theta(A_init, F, theta):
    w = np.exp(-F @ np.asarray(theta, float))
    return np.sqrt(w)[:, None] * A_init * np.sqrt(w)[None, :], w


def tame_theta(A_init, F, theta):
    """halve theta until the largest singular value of A(theta) is <= SMAX (theta = 0 gives A_init)"""
    theta = np.asarray(theta, float)
    for _ in range(60):
        At, _ = own_A_theta(A_init, F, theta)
        if np.linalg.svd(At, compute_uv=False)[0] <= SMAX:
            return [float(x) for x in theta]
        theta = theta / 2
    return [0.0] * len(theta)


@st.composite
def model_case(draw, threshold=False, signed=False, mmax=5):
    m = draw(st.integers(2, mmax))
    A = draw(adjacency(m, signed))
    case = {"m": m, "A": spec.enc_matrix(A)}
    case.update(draw(embedding_spec(m)))
    if threshold:
        frac = draw(gen.fl(0.05, 0.85))
        x = frac / float(np.linalg.svd(A, compute_uv=False)[0])
        n_mean = float(np.sum(mean_clicks_of(x * A)))
    else:
        n_mean = draw(st.one_of(gen.fl(0.1001, 3.0), st.sampled_from([0.5, 1.0, 2.0, 3.0])))
        x = own_scale(A, n_mean, False)
    case["n_mean"] = n_mean
    case["threshold"] = bool(threshold)
    theta = draw(st.lists(st.one_of(gen.fl(-1.0, 1.0), st.just(0.0)), min_size=case["d"], max_size=case["d"]))
    case["theta"] = tame_theta(x * A, feature_matrix(case), theta)
    return case


def matrix_labels(A):
    m = len(A)
    off = A - np.diag(np.diag(A))
    labs = ["m=%d" % m]
    # connected components of the support
    seen, comp = set(), 0
    for s in range(m):
        if s in seen:
            continue
        comp += 1
        stack = [s]
        while stack:
            u = stack.pop()
            if u in seen:
                continue
            seen.add(u)
            stack += [v for v in range(m) if off[u, v] != 0 and v not in seen]
    if comp > 1:
        labs.append("disconnected")
    if np.linalg.matrix_rank(A) < m:
        labs.append("rank_deficient")
    if np.any(np.diag(A) != 0):
        labs.append("has_loops")
    if np.any(A < 0):
        labs.append("signed")
    if np.any((A != 0) & (np.abs(A) != 1)):
        labs.append("weighted")
    else:
        labs.append("unweighted")
    return labs, bool(np.any(off != 0))


def in_domain(case, A_init_ref):
    At, _ = own_A_theta(A_init_ref, feature_matrix(case), case["theta"])
    return np.linalg.svd(At, compute_uv=False)[0] <= SMAX + 0.05


# =============================================================================================
# kl_grad
# =============================================================================================
@st.composite
def kl_case(draw):
    case = draw(model_case(threshold=False, signed=False))
    A = spec.dec_param(case["A"])
    m = case["m"]
    pairs = [(i, j) for i in range(m) for j in range(i, m) if A[i, j] > 0]
    rows = []
    for _ in range(draw(st.integers(1, 4))):
        row = [0] * m
        for _ in range(draw(st.integers(0, 3))):
            i, j = pairs[draw(st.integers(0, len(pairs) - 1))]
            row[i] += 1
            row[j] += 1
        rows.append(row)
    case["data"] = rows
    # the class docstring hands the data over as a FLOAT array (np.zeros((4, 4))); training sets loaded from files are float as well
    case["data_float"] = draw(st.booleans())
    return case


def check_kl(ctx, case):
    from strawberryfields.apps.train import cost, param

    A = spec.dec_param(case["A"])
    F = feature_matrix(case)
    theta = np.array(case["theta"], float)
    data = np.array(case["data"], dtype=float if case.get("data_float") else int)
    x = own_scale(A, case["n_mean"], False)
    labs, offdiag = matrix_labels(A)
    labs += ["kl_grad", "emb:" + case["emb"], "data:float" if case.get("data_float") else "data:int"]
    if not in_domain(case, x * A) or np.any(A < 0):
        ctx.note(case, False, ["out_of_domain"])
        return None
    try:
        vg = param.VGBS(A, case["n_mean"], make_embedding(case), threshold=False)
        kl = cost.KL(data, vg)
        g = np.asarray(kl.grad(theta), float)
        val = float(kl.evaluate(theta))
        vcall = float(kl(theta))
        gfd = richardson(lambda t: float(kl.evaluate(t)), theta)
    except Exception as exc:  # pylint: disable=broad-except
        ctx.note(case, False, labs)
        return ctx.crash(exc, "kl")
    ctx.note(case, nontrivial=bool(np.linalg.norm(g) > 1e-6 and offdiag), labels=labs)
    if abs(vcall - val) > 1e-12 * (1 + abs(val)):
        return ctx.fail("kl.call_vs_evaluate", "KL.__call__ = %.12g, KL.evaluate = %.12g" % (vcall, val))
    # value of the cost vs the oracle's own model
    At, _ = own_A_theta(x * A, F, theta)
    probs = [pnr_prob(At, row) for row in data]
    if min(probs) <= 0:
        return ctx.fail("harness.zero_probability_pattern", "constructed pattern has probability %r" % (min(probs),))
    own = -float(np.mean(np.log(probs)))
    dv = abs(val - own)
    _track(ctx, "kl_value_err", dv / (1 + abs(own)))
    if not np.isfinite(val) or dv > 1e-7 * (1 + abs(own)):
        return ctx.fail("kl.evaluate_vs_model", "KL.evaluate = %.12g, -mean log P of the reference model = %.12g" % (val, own))
    err = float(np.max(np.abs(g - gfd)))
    _track(ctx, "kl_grad_err", err / (1 + float(np.max(np.abs(g)))))
    if g.shape != (len(theta),):
        return ctx.fail("kl.grad_shape", "grad has shape %r for %d parameters" % (g.shape, len(theta)))
    if err > 1e-6 * (1 + float(np.max(np.abs(gfd)))):
        return ctx.fail("kl.grad_vs_finite_difference", "KL.grad = %s, finite differences of KL.evaluate = %s (max diff %.3g)" % (
            np.round(g, 9).tolist(), np.round(gfd, 9).tolist(), err))
    # a training step as users write it: the parameter array is updated IN PLACE and handed to the same objects again; the answers must be
    # those of fresh objects given a fresh copy of the updated values
    # (the step is halved until the updated parameters are still inside the model's domain, largest singular value of A(theta) <= SMAX + 0.05:
    # a step that leaves it makes the library raise "covariance matrix does not correspond to a pure state", which is the documented
    # rejection of an unphysical model and not a stale answer - false-alarm item 32)
    step = 0.05 * g
    for _ in range(12):
        tc = theta - step
        tc[0] += 0.01
        if np.linalg.svd(own_A_theta(x * A, F, tc)[0], compute_uv=False)[0] <= SMAX + 0.05:
            break
        step = step / 2
    else:
        ctx.label("inplace_step_out_of_domain")
        return None
    try:
        t = theta.copy()
        kl.evaluate(t)
        vg.mean_photons_by_mode(t)
        t -= step
        t[0] += 0.01
        v1, n1, g1 = float(kl.evaluate(t)), np.asarray(vg.mean_photons_by_mode(t), float), np.asarray(kl.grad(t), float)
        vg2 = param.VGBS(A, case["n_mean"], make_embedding(case), threshold=False)
        kl2 = cost.KL(data, vg2)
        t2 = t.copy()
        v2, n2, g2 = float(kl2.evaluate(t2)), np.asarray(vg2.mean_photons_by_mode(t2), float), np.asarray(kl2.grad(t2), float)
    except Exception as exc:  # pylint: disable=broad-except
        return ctx.crash(exc, "kl.inplace_step")
    ctx.label("inplace_parameter_update")
    if abs(v1 - v2) > 1e-9 * (1 + abs(v2)) or float(np.max(np.abs(n1 - n2))) > 1e-9 * (1 + float(np.max(np.abs(n2)))) or float(np.max(np.abs(g1 - g2))) > 1e-8 * (1 + float(np.max(np.abs(g2)))):
        return ctx.fail("kl.stale_after_inplace_update", "after an in-place update of the parameter array: evaluate %.10g vs %.10g (fresh objects), mean photons differ by %.3g, grad by %.3g" % (
            v1, v2, float(np.max(np.abs(n1 - n2))), float(np.max(np.abs(g1 - g2)))))
    return None


# =============================================================================================
# stochastic_grad
# =============================================================================================
STORE_HOW = ["two_batches", "ctor", "add", "none", "ctor_then_add"]  # (Hypothesis favours the early entries)


@st.composite
def stoch_case(draw):
    case = draw(model_case(threshold=False, signed=draw(st.integers(0, 3)) == 0))
    m = case["m"]
    # how the fixed sample set reaches the model (one add_A_init_samples call / the constructor argument / two calls, which are
    # stacked / constructor then a call / nothing pre-loaded: "generated once upon the first call") and how many of its rows the
    # cost function is asked to use (all / fewer / more than stored: the set is topped up by the library's sampler, once)
    how = draw(st.sampled_from(STORE_HOW))
    k = 0 if how == "none" else draw(st.integers(2 if how in ("two_batches", "ctor_then_add") else 1, 5))
    case["samples"] = [draw(st.lists(st.integers(0, 3), min_size=m, max_size=m)) for _ in range(k)]
    kind = draw(st.sampled_from(["linear", "quadratic"]))
    h = {"kind": kind, "c": draw(st.lists(gen.fl(-1.0, 1.0), min_size=m, max_size=m)), "c0": draw(gen.fl(-1.0, 1.0))}
    if kind == "quadratic":
        h["Q"] = spec.enc_matrix(np.array(draw(st.lists(gen.fl(-1.0, 1.0), min_size=m * m, max_size=m * m))).reshape(m, m))
    case["h"] = h
    case["store"] = {"how": how, "split": draw(st.integers(1, k - 1)) if k > 1 else 0}
    req = "more" if how == "none" else draw(st.sampled_from(["fewer", "all", "more", "fewer", "all"]))
    if req == "fewer" and k == 1:
        req = "all"
    case["ns"] = k if req == "all" else (draw(st.integers(1, k - 1)) if req == "fewer" else k + draw(st.integers(1, 2 if k == 0 else 1)))
    case["seed"] = draw(st.integers(0, 2 ** 31 - 1))
    return case


def make_h(h):
    c = np.array(h["c"], float)
    Q = spec.dec_param(h["Q"]) if h["kind"] == "quadratic" else None

    def fun(s):
        s = np.asarray(s, float)
        v = h["c0"] + float(c @ s)
        if Q is not None:
            v += float(s @ Q @ s)
        return v

    return fun


def _rows(a):
    return collections.Counter(tuple(int(v) for v in r) for r in np.asarray(a))


def check_stoch(ctx, case):
    from strawberryfields.apps.train import cost, param

    A = spec.dec_param(case["A"])
    m = case["m"]
    F = feature_matrix(case)
    theta = np.array(case["theta"], float)
    samples = np.array(case["samples"], dtype=int).reshape(len(case["samples"]), m)
    pre = len(samples)
    ns = int(case.get("ns", pre))
    store = case.get("store") or {"how": "add", "split": 0}
    how, split = store["how"], int(store["split"])
    hfun = make_h(case["h"])
    x = own_scale(A, case["n_mean"], False)
    labs, offdiag = matrix_labels(A)
    labs += ["stochastic_grad", "emb:" + case["emb"], "h:" + case["h"]["kind"], "store:" + how,
             "ns<stored" if ns < pre else ("ns=stored" if ns == pre else "ns>stored(top-up)")]
    if not in_domain(case, x * A):
        ctx.note(case, False, ["out_of_domain"])
        return None
    try:
        if how in ("ctor", "ctor_then_add"):
            vg = param.VGBS(A, case["n_mean"], make_embedding(case), threshold=False,
                            samples=(samples[:split] if how == "ctor_then_add" else samples).copy())
        else:
            vg = param.VGBS(A, case["n_mean"], make_embedding(case), threshold=False)
        if how == "add":
            vg.add_A_init_samples(samples.copy())
        elif how == "two_batches":
            vg.add_A_init_samples(samples[:split].copy())
            vg.add_A_init_samples(samples[split:].copy())
        elif how == "ctor_then_add":
            vg.add_A_init_samples(samples[split:].copy())
        sc = cost.Stochastic(hfun, vg)
        np.random.seed(int(case.get("seed", 0)))
        g = np.asarray(sc.grad(theta, ns), float)  # the first call tops the sample set up when ns > stored
        stored = np.array(vg.A_init_samples)
        val = float(sc.evaluate(theta, ns))
        vcall = float(sc(theta, ns))
        used = np.array(vg.get_A_init_samples(ns))
        gfd = richardson(lambda t: float(sc.evaluate(t, ns)), theta)
        stored2 = np.array(vg.A_init_samples)
        used2 = np.array(vg.get_A_init_samples(ns))
    except Exception as exc:  # pylint: disable=broad-except
        ctx.note(case, False, labs)
        return ctx.crash(exc, "stochastic")
    ctx.note(case, nontrivial=bool(np.linalg.norm(g) > 1e-6 and offdiag), labels=labs)
    # ---- bookkeeping of the fixed sample set
    if ns <= pre:
        if stored.shape != samples.shape or np.any(stored != samples):
            return ctx.fail("stochastic.sample_set_changed", "pre-loaded sample set (%s, %d rows) was modified or extended: %r" % (how, pre, stored.tolist()))
    else:
        # "If there are fewer than n_samples stored, more samples are generated and added"
        if stored.ndim != 2 or stored.shape[1] != m or len(stored) < ns or _rows(samples) - _rows(stored):
            return ctx.fail("stochastic.top_up", "%d rows pre-loaded (%s), %d requested: stored set afterwards %r" % (pre, how, ns, stored.tolist()))
        fresh = _rows(stored) - _rows(samples)
        for row in fresh:
            # PNR samples of a pure zero-mean Gaussian state: non-negative integers, photons come in pairs
            if min(row) < 0 or sum(row) % 2:
                return ctx.fail("vgbs.generate_samples.not_pnr_sample", "generated sample %r of the pure state of A_init (PNR mode) has an odd photon number or a negative entry" % (list(row),))
        if np.any(stored != np.asarray(stored, int)):
            return ctx.fail("vgbs.generate_samples.not_pnr_sample", "generated samples are not integers: %r" % (stored.tolist(),))
    if stored2.shape != stored.shape or np.any(stored2 != stored) or used2.shape != used.shape or np.any(used2 != used):
        return ctx.fail("stochastic.sample_set_not_fixed", "the sample set changed between calls with the same n_samples=%d: %r -> %r" % (ns, stored.tolist(), stored2.tolist()))
    if used.shape != (ns, m) or _rows(used) - _rows(stored):
        return ctx.fail("vgbs.get_A_init_samples", "get_A_init_samples(%d) returned %r, stored %r" % (ns, used.tolist(), stored.tolist()))
    # documented reparametrisation: h(n) sqrt(det(1-A(theta)^2)/det(1-A^2)) prod w_k^n_k, averaged over the n_samples fixed samples
    Ai = x * A
    At, w = own_A_theta(Ai, F, theta)
    ratio = math.sqrt(np.linalg.det(np.eye(m) - At @ At) / np.linalg.det(np.eye(m) - Ai @ Ai))
    own = float(np.mean([hfun(s) * ratio * np.prod(w ** s) for s in used]))
    dv = abs(val - own)
    _track(ctx, "stoch_value_err", dv / (1 + abs(own)))
    if dv > 1e-7 * (1 + abs(own)):
        return ctx.fail("stochastic.evaluate_vs_formula", "Stochastic.evaluate(n_samples=%d of %d stored) = %.12g, documented formula = %.12g" % (ns, len(stored), val, own))
    if abs(vcall - val) > 1e-12 * (1 + abs(val)):
        return ctx.fail("stochastic.call_vs_evaluate", "Stochastic.__call__ = %.12g, evaluate = %.12g" % (vcall, val))
    err = float(np.max(np.abs(g - gfd)))
    _track(ctx, "stoch_grad_err", err / (1 + float(np.max(np.abs(gfd)))))
    if err > 1e-6 * (1 + float(np.max(np.abs(gfd)))):
        return ctx.fail("stochastic.grad_vs_finite_difference", "Stochastic.grad = %s, finite differences of evaluate = %s (max diff %.3g; n_samples=%d of %d stored)" % (
            np.round(g, 9).tolist(), np.round(gfd, 9).tolist(), err, ns, len(stored)))
    return None


# =============================================================================================
# jacobian
# =============================================================================================
@st.composite
def jac_case(draw):
    m = draw(st.integers(1, 6))
    case = {"m": m}
    case.update(draw(embedding_spec(m)))
    case["theta"] = draw(st.lists(st.one_of(gen.fl(-1.0, 1.0), st.sampled_from([0.0, 1.0, -1.0])), min_size=case["d"], max_size=case["d"]))
    return case


def check_jac(ctx, case):
    F = feature_matrix(case)
    theta = np.array(case["theta"], float)
    labs = ["jacobian", "emb:" + case["emb"], "d=%d" % case["d"]]
    try:
        emb = make_embedding(case)
        w = np.asarray(emb.weights(theta), float)
        wc = np.asarray(emb(theta), float)
        J = np.asarray(emb.jacobian(theta), float)
        Jfd = richardson(lambda t: np.asarray(emb.weights(t), float), theta)
    except Exception as exc:  # pylint: disable=broad-except
        ctx.note(case, False, labs)
        return ctx.crash(exc, "embedding")
    ctx.note(case, nontrivial=bool(np.max(np.abs(J)) > 1e-6), labels=labs)
    wo = np.exp(-F @ theta)
    if w.shape != wo.shape or np.max(np.abs(w - wo)) > 1e-12 * (1 + np.max(wo)) or np.max(np.abs(wc - w)) > 0:
        return ctx.fail("embed.weights_formula", "weights %s differ from exp(-F theta) = %s" % (w.tolist(), wo.tolist()))
    if J.shape != (case["m"], case["d"]):
        return ctx.fail("embed.jacobian_shape", "jacobian has shape %r, expected (%d, %d)" % (J.shape, case["m"], case["d"]))
    err = float(np.max(np.abs(J - Jfd)))
    _track(ctx, "jac_err", err / (1 + float(np.max(np.abs(Jfd)))))
    if err > 1e-8 * (1 + float(np.max(np.abs(Jfd)))):
        return ctx.fail("embed.jacobian_vs_finite_difference", "jacobian %s vs finite differences %s (max diff %.3g)" % (
            np.round(J, 9).tolist(), np.round(Jfd, 9).tolist(), err))
    return None


# =============================================================================================
# model_probs
# =============================================================================================
@st.composite
def probs_case(draw):
    threshold = draw(st.booleans())
    case = draw(model_case(threshold=threshold, signed=draw(st.integers(0, 2)) == 0, mmax=5))
    case["hbar"] = draw(st.sampled_from([2.0, 2.0, 1.0, 0.5]))
    # numpy seed for two samples drawn with VGBS.generate_samples(A(theta)).
    # finding F73 (fixed; formerly AUDIT-FINDING generate-samples-hbar): at sf.hbar != 2 generate_samples raised ValueError("probabilities contain NaN") (hbar < 2) or
    # samples a different state (hbar > 2; odd photon numbers from a pure state): thewalrus 0.22 generate_hafnian_sample /
    # generate_torontonian_sample use hbar only for the means (decompose_cov, Amat are called with the default hbar=2).  Sampling is
    # therefore only exercised at hbar = 2 for now (minimal case: out/audit/C20-generate-samples-hbar.json).
    seed_ = draw(st.integers(0, 2 ** 31 - 1))
    case["gs_seed"] = seed_  # (finding F73, fixed: sampling is exercised at every hbar again)
    return case


def check_probs(ctx, case):
    from strawberryfields.apps.train import param
    from thewalrus.quantum import probabilities

    A = spec.dec_param(case["A"])
    m, hbar, thr = case["m"], case["hbar"], case["threshold"]
    F = feature_matrix(case)
    theta = np.array(case["theta"], float)
    x = own_scale(A, case["n_mean"], thr)
    labs, offdiag = matrix_labels(A)
    labs += ["emb:" + case["emb"], "threshold" if thr else "pnr", "hbar=%g" % hbar, "prob_click_norm", "prob_pnr"]
    if not in_domain(case, x * A):
        ctx.note(case, False, ["out_of_domain"])
        return None
    nmax = 4 if m <= 4 else 3
    pats = patterns_upto(m, nmax)
    clicks = list(itertools.product([0, 1], repeat=m))
    zero = np.zeros(case["d"])
    try:
        with sfrun.HbarCtx(hbar):
            vg = param.VGBS(A, case["n_mean"], make_embedding(case), threshold=thr)
            A_init = np.array(vg.A_init, float)
            W = np.asarray(vg.W(theta))
            At_repo = np.asarray(vg.A(theta))
            cov = np.asarray(param.A_to_cov(At_repo))
            p_pnr = [param.prob_photon_sample(At_repo, np.array(p)) for p in pats]
            p_clk = [param.prob_click(At_repo, np.array(p)) for p in clicks]
            nph = np.asarray(vg.mean_photons_by_mode(theta))
            ncl = np.asarray(vg.mean_clicks_by_mode(theta))
            nm0 = float(vg.n_mean(zero))
            nmt = float(vg.n_mean(theta))
            ps = [vg.prob_sample(theta, np.array(p)) for p in (clicks if thr else pats[:12])]
            gs = None
            if case.get("gs_seed") is not None:
                np.random.seed(int(case["gs_seed"]))
                gs = np.asarray(vg.generate_samples(At_repo, 2))
    except Exception as exc:  # pylint: disable=broad-except
        ctx.note(case, False, labs)
        return ctx.crash(exc, "vgbs")
    ctx.note(case, nontrivial=offdiag, labels=labs)
    # ---- samples of the model: only what holds with certainty (click patterns are 0/1; a pure zero-mean Gaussian state emits pairs)
    if gs is not None:
        ctx.label("generate_samples")
        if gs.shape != (2, m) or np.any(gs != np.floor(gs)) or np.any(gs < 0):
            return ctx.fail("vgbs.generate_samples.shape", "generate_samples(A(theta), 2) on %d modes returned %r" % (m, gs.tolist()))
        if thr and np.any(gs > 1):
            return ctx.fail("vgbs.generate_samples.not_click_pattern", "threshold mode, samples %r" % (gs.tolist(),))
        if not thr and np.any(np.sum(gs, axis=1) % 2):
            return ctx.fail("vgbs.generate_samples.not_pnr_sample", "PNR mode, pure state of A(theta) (hbar=%g): odd photon number in %r" % (hbar, gs.tolist()))
    # ---- initial rescaling
    d0 = float(np.max(np.abs(A_init - x * A))) / float(np.max(np.abs(x * A)))
    _track(ctx, "A_init_rel_err", d0)
    if d0 > 1e-6:
        return ctx.fail("vgbs.A_init_scale", "A_init/A = %.10g, the scale giving n_mean=%g %s is %.10g" % (
            float(np.max(np.abs(A_init)) / np.max(np.abs(A))), case["n_mean"], "clicks" if thr else "photons", x))
    _track(ctx, "n_mean0_rel_err", abs(nm0 - case["n_mean"]) / case["n_mean"])
    if abs(nm0 - case["n_mean"]) > 1e-6 * case["n_mean"]:
        return ctx.fail("vgbs.n_mean_at_zero", "n_mean(0) = %.10g, requested %.10g (threshold=%s)" % (nm0, case["n_mean"], thr))
    # ---- W, A as documented (relative to the repo's own A_init so that the root finder's tolerance does not enter)
    At, w = own_A_theta(A_init, F, theta)
    if W.shape != (m, m) or np.max(np.abs(W - np.diag(np.sqrt(w)))) > 1e-12 * (1 + np.max(w)):
        return ctx.fail("vgbs.W", "W(theta) is not diag(sqrt(exp(-F theta)))")
    if np.max(np.abs(At_repo - At)) > 1e-12 * (1 + np.max(np.abs(At))):
        return ctx.fail("vgbs.A_theta", "A(theta) is not W A_init W (max diff %.3g)" % np.max(np.abs(At_repo - At)))
    # ---- covariance vs the reference state (up to a global phase rotation)
    ref = ref_from_A(At, hbar)
    Nr, Mr, _ = ref.NM()
    if np.iscomplexobj(cov) and np.max(np.abs(cov.imag)) > 0:
        return ctx.fail("A_to_cov.complex", "covariance has imaginary part %.3g" % np.max(np.abs(cov.imag)))
    cov = np.real(cov)
    if np.max(np.abs(cov - cov.T)) > 1e-9 * hbar * (1 + np.max(np.abs(ref.V))):
        return ctx.fail("A_to_cov.asymmetric", "covariance is not symmetric")
    Nc, Mc = NM_of(cov, hbar)
    sc = 1 + float(np.max(np.abs(Nr)))
    dN = float(np.max(np.abs(Nc - Nr)))
    nrm = float(np.sum(np.abs(Mr) ** 2))
    cph = np.sum(np.conj(Mr) * Mc) / nrm
    dM = float(np.max(np.abs(Mc - cph * Mr)))
    _track(ctx, "cov_err", max(dN, dM, abs(abs(cph) - 1)) / sc)
    if dN > 1e-8 * sc or dM > 1e-8 * sc or abs(abs(cph) - 1) > 1e-8:
        return ctx.fail("A_to_cov.vs_reference", "A_to_cov(A) is not (a phase rotation of) the state of A: |dN|=%.3g, |M - c M_ref|=%.3g, |c|=%.10g (hbar=%g)" % (dN, dM, abs(cph), hbar))
    ctx.label("cov_phase=%.3f" % float(np.angle(cph)))
    # ---- photon-number probabilities
    own = np.array([pnr_prob(At, p) for p in pats])
    p_pnr = np.array(p_pnr)
    if np.iscomplexobj(p_pnr) or np.any(p_pnr < 0):
        return ctx.fail("prob_photon_sample.not_probability", "negative or complex probability")
    e1 = float(np.max(np.abs(p_pnr - own)))
    _track(ctx, "pnr_err_hafnian", e1)
    if e1 > 1e-9:
        k = int(np.argmax(np.abs(p_pnr - own)))
        return ctx.fail("prob_photon_sample.vs_hafnian", "P%s = %.12g, reference %.12g (hbar=%g)" % (list(pats[k]), p_pnr[k], own[k], hbar))
    pw = probabilities(ref.mu, ref.V, nmax + 1, hbar=hbar)
    e2 = float(max(abs(p_pnr[i] - pw[p]) for i, p in enumerate(pats)))
    _track(ctx, "pnr_err_walrus", e2)
    if e2 > 1e-8:
        return ctx.fail("prob_photon_sample.vs_thewalrus", "differs from thewalrus.probabilities(reference state) by %.3g" % e2)
    cum = np.cumsum(p_pnr)
    mass = float(np.sum(own))
    if cum[-1] > 1 + 1e-9 or abs(cum[-1] - mass) > 1e-8:
        return ctx.fail("prob_photon_sample.partial_sum", "sum over <=%d photons = %.12g (reference %.12g)" % (nmax, cum[-1], mass))
    # ---- click probabilities
    p_clk = np.array(p_clk)
    if np.max(np.abs(np.imag(p_clk))) > 1e-10:
        return ctx.fail("prob_click.complex", "imaginary part %.3g" % np.max(np.abs(np.imag(p_clk))))
    p_clk = np.real(p_clk)
    tot = float(np.sum(p_clk))
    _track(ctx, "click_norm_err", abs(tot - 1))
    if abs(tot - 1) > 1e-9:
        return ctx.fail("prob_click.normalisation", "sum over all %d click patterns = %.12g" % (len(clicks), tot))
    ownc = np.array([click_prob(ref, p) for p in clicks])
    e3 = float(np.max(np.abs(p_clk - ownc)))
    _track(ctx, "click_err", e3)
    if e3 > 1e-9:
        k = int(np.argmax(np.abs(p_clk - ownc)))
        return ctx.fail("prob_click.vs_reference", "P(click %s) = %.12g, inclusion-exclusion on the reference state %.12g" % (list(clicks[k]), p_clk[k], ownc[k]))
    # ---- prob_sample dispatch
    want = p_clk if thr else p_pnr[:12]
    if np.max(np.abs(np.real(np.array(ps)) - want)) > 1e-12:
        return ctx.fail("vgbs.prob_sample_dispatch", "prob_sample differs from prob_%s" % ("click" if thr else "photon_sample"))
    # ---- means
    nref = np.real(np.diag(Nr))
    e4 = float(np.max(np.abs(nph - nref))) / (1 + float(np.max(nref)))
    _track(ctx, "mean_photon_err", e4)
    if nph.shape != (m,) or e4 > 1e-8:
        return ctx.fail("vgbs.mean_photons_by_mode", "%s vs reference %s" % (np.round(nph, 10).tolist(), np.round(nref, 10).tolist()))
    cref = np.array([1 - vac_prob(ref, [k]) for k in range(m)])
    e5 = float(np.max(np.abs(ncl - cref)))
    _track(ctx, "mean_click_err", e5)
    if ncl.shape != (m,) or e5 > 1e-8:
        return ctx.fail("vgbs.mean_clicks_by_mode", "%s vs 1 - vacuum probability of each mode %s" % (np.round(ncl, 10).tolist(), np.round(cref, 10).tolist()))
    # mean clicks also equal the marginals of the click distribution
    marg = np.array([sum(p_clk[i] for i, p in enumerate(clicks) if p[k]) for k in range(m)])
    if np.max(np.abs(marg - ncl)) > 1e-8:
        return ctx.fail("vgbs.mean_clicks_vs_prob_click", "marginals of prob_click %s vs mean_clicks_by_mode %s" % (marg.tolist(), ncl.tolist()))
    wantn = float(np.sum(cref) if thr else np.sum(nref))
    if abs(nmt - wantn) > 1e-8 * (1 + wantn):
        return ctx.fail("vgbs.n_mean", "n_mean(theta) = %.10g, reference %.10g (threshold=%s)" % (nmt, wantn, thr))
    return None


# =============================================================================================
# similarity
# =============================================================================================
def partitions(n):
    """integer partitions of n as descending lists (own enumeration)"""
    def rec(rest, mx):
        if rest == 0:
            yield []
            return
        for k in range(min(rest, mx), 0, -1):
            for tail in rec(rest - k, k):
                yield [k] + tail
    return list(rec(n, n))


@st.composite
def sim_case(draw):
    m = draw(st.integers(3, 5))
    kind = draw(st.sampled_from(["random", "random", "complete", "weighted"]))
    pairs = [(i, j) for i in range(m) for j in range(i + 1, m)]
    edges = []
    if kind == "complete":
        edges = [[i, j, 1.0] for i, j in pairs]
    else:
        present = draw(st.lists(st.booleans(), min_size=len(pairs), max_size=len(pairs)))
        if not any(present):
            present[0] = True
        for (i, j), p in zip(pairs, present):
            if p:
                edges.append([i, j, draw(WT) if kind == "weighted" else 1.0])
    # (0 photons used to be listed first and was drawn in 40% of the cases)
    photons = draw(st.sampled_from([2, 3, 4, 2, 3, 4, 1, 0] if m <= 4 else [2, 3, 2, 3, 1, 0]))
    parts = [p for p in partitions(photons) if len(p) <= m] if photons else [[]]
    orbit = parts[draw(st.integers(0, len(parts) - 1))]
    # loss = 1 is the documented upper end of the loss range (the state is the vacuum); fv: also go through the feature-vector
    # front ends (several orbits / events in one call, exact and Monte-Carlo dispatch)
    # n_mean = 0 is the lower end of the accepted range ("Mean photon number must be non-negative"): the vacuum
    return {"m": m, "edges": edges, "n_mean": 0.0 if draw(st.integers(0, 9)) == 9 else draw(gen.fl(0.2, 3.0)),  # (Hypothesis draws 9 in ~5% of the cases)
            "loss": draw(st.sampled_from([0.0, 0.0, 0.25, 0.6, 1.0])),
            "photons": photons, "orbit": orbit, "max_count": draw(st.integers(1, 3)), "mc_samples": draw(st.integers(1, 12)),
            "seed": draw(st.integers(0, 2 ** 31 - 1)), "fv": draw(st.integers(0, 2)) == 0}


def check_sim(ctx, case):
    import networkx as nx
    from strawberryfields.apps import similarity
    from thewalrus.quantum import probabilities

    m, photons, orbit, mc = case["m"], case["photons"], list(case["orbit"]), case["max_count"]
    A = np.zeros((m, m))
    g = nx.Graph()
    g.add_nodes_from(range(m))
    weighted = False
    for i, j, wt in case["edges"]:
        A[i, j] = A[j, i] = wt
        weighted |= wt != 1.0
        if wt == 1.0:
            g.add_edge(i, j)
        else:
            g.add_edge(i, j, weight=wt)
    complete = len(case["edges"]) == m * (m - 1) // 2 and not weighted
    labs = ["similarity", "m=%d" % m, "photons=%d" % photons, "lossless" if not case["loss"] else ("loss=1" if case["loss"] == 1 else "loss"),
            "complete" if complete else ("weighted" if weighted else "unweighted")] + (["n_mean=0"] if case["n_mean"] == 0 else [])
    x = own_scale(A, case["n_mean"], False) if case["n_mean"] > 0 else 0.0
    ref = ref_from_A(x * A, 2.0)
    for k in range(m):
        ref.LossChannel(1 - case["loss"], k)
    pats = [p for p in itertools.product(range(photons + 1), repeat=m) if sum(p) == photons]
    pw = {p: gauss_prob(ref.mu, ref.V, p) for p in pats}
    in_orbit = [p for p in pats if sorted([k for k in p if k], reverse=True) == orbit]
    in_event = [p for p in pats if max(p) <= mc]
    want_orbit = float(sum(pw[p] for p in in_orbit))
    want_event = float(sum(pw[p] for p in in_event))
    if not case["loss"]:
        own = float(sum(pnr_prob(x * A, p) for p in in_orbit))
        if abs(own - want_orbit) > 1e-10:
            return ctx.fail("harness.oracles_disagree", "hafnian %.12g vs Husimi formula %.12g" % (own, want_orbit))
    elif m <= 4:
        pt = probabilities(ref.mu, ref.V, photons + 1, hbar=2.0, rtol=1e-12, atol=1e-12)
        if max(abs(pt[p] - pw[p]) for p in pats) > 1e-9:
            return ctx.fail("harness.oracles_disagree", "thewalrus.probabilities vs Husimi formula differ by %.3g" % max(abs(pt[p] - pw[p]) for p in pats))
    # partitions of the event that have more parts than there are modes contain no sample at all
    too_long = [p for p in partitions(photons) if p and max(p) <= mc and len(p) > m]
    pe = event_exc = None
    try:
        po = float(similarity.prob_orbit_exact(g, list(orbit), case["n_mean"], case["loss"])) if photons else None
        try:
            pe = float(similarity.prob_event_exact(g, photons, mc, case["n_mean"], case["loss"]))
        except ValueError as exc:
            if not too_long:
                raise
            labs.append("event_has_partition_longer_than_modes")
            event_exc = str(exc)[:80]
        np.random.seed(case["seed"])
        pom = float(similarity.prob_orbit_mc(g, list(orbit), case["n_mean"], case["mc_samples"], case["loss"])) if photons else None
        np.random.seed(case["seed"])
        pem = float(similarity.prob_event_mc(g, photons, mc, case["n_mean"], case["mc_samples"], case["loss"])) if in_event else None
    except Exception as exc:  # pylint: disable=broad-except
        ctx.note(case, False, labs)
        return ctx.crash(exc, "similarity")
    ctx.note(case, nontrivial=photons >= 2 and len(in_orbit) > 1, labels=labs)
    if event_exc is not None and in_event:
        # known-open findings return here and the remaining comparisons are still made
        ctx.fail("similarity.prob_event_exact.partition_longer_than_modes",
                 "prob_event_exact(graph with %d nodes, %d photons, <=%d per mode) raises ValueError(%s); the event holds %d samples, probability %.10g" % (
                     m, photons, mc, event_exc, len(in_event), want_event))
    if po is not None:
        _track(ctx, "orbit_exact_err", abs(po - want_orbit))
        if abs(po - want_orbit) > 1e-8:
            return ctx.fail("similarity.prob_orbit_exact", "orbit %s: %.12g, brute force over the reference state %.12g" % (orbit, po, want_orbit))
    if pe is not None:
        _track(ctx, "event_exact_err", abs(pe - want_event))
    if pe is not None and abs(pe - want_event) > 1e-8:
        return ctx.fail("similarity.prob_event_exact", "event (%d photons, <=%d per mode): %.12g, brute force %.12g" % (photons, mc, pe, want_event))
    if pom is not None:
        vals = [pw[p] for p in in_orbit]
        lo, hi = len(in_orbit) * min(vals), len(in_orbit) * max(vals)
        if not lo - 1e-9 <= pom <= hi + 1e-9:
            return ctx.fail("similarity.prob_orbit_mc_bound", "MC estimate %.12g outside cardinality*[min p, max p] = [%.12g, %.12g]" % (pom, lo, hi))
        if complete and abs(pom - want_orbit) > 1e-8:
            return ctx.fail("similarity.prob_orbit_mc_complete_graph", "complete graph: MC %.12g vs exact %.12g" % (pom, want_orbit))
    if pem is not None:
        vals = [pw[p] for p in in_event]
        lo, hi = len(in_event) * min(vals), len(in_event) * max(vals)
        if not lo - 1e-9 <= pem <= hi + 1e-9:
            return ctx.fail("similarity.prob_event_mc_bound", "MC estimate %.12g outside cardinality*[min p, max p] = [%.12g, %.12g]" % (pem, lo, hi))
    # ---- feature vectors: "a feature vector of orbit/event probabilities in the same order as" the request; samples=None -> exact
    if case.get("fv"):
        ctx.label("feature_vectors")
        pats2 = [p for p in itertools.product(range(3), repeat=m) if sum(p) == 2]
        pw2 = {p: gauss_prob(ref.mu, ref.V, p) for p in pats2}
        orbs = [[1, 1]] + ([list(orbit)] if photons else [])
        want_o = [float(sum(pw2[p] for p in pats2 if max(p) == 1))] + ([want_orbit] if photons else [])
        evs = [2, photons]
        want_e = [float(sum(pw2[p] for p in pats2 if max(p) <= mc)), want_event]
        fom = fem = None
        try:
            fo = similarity.feature_vector_orbits(g, [list(o) for o in orbs], case["n_mean"], None, case["loss"])
            fe = similarity.feature_vector_events(g, list(evs), mc, case["n_mean"], None, case["loss"]) if pe is not None else None
            if pom is not None:
                np.random.seed(case["seed"])
                fom = similarity.feature_vector_orbits(g, [list(orbit)], case["n_mean"], case["mc_samples"], case["loss"])
            if pem is not None:
                np.random.seed(case["seed"])
                fem = similarity.feature_vector_events(g, [photons], mc, case["n_mean"], case["mc_samples"], case["loss"])
        except Exception as exc:  # pylint: disable=broad-except
            return ctx.crash(exc, "similarity.feature_vector")
        if len(fo) != len(orbs) or max(abs(float(a) - b) for a, b in zip(fo, want_o)) > 1e-8:
            return ctx.fail("similarity.feature_vector_orbits", "orbits %s (n_mean=%g, loss=%g): %r, brute force over the reference state %r" % (orbs, case["n_mean"], case["loss"], list(fo), want_o))
        if fe is not None and (len(fe) != 2 or max(abs(float(a) - b) for a, b in zip(fe, want_e)) > 1e-8):
            return ctx.fail("similarity.feature_vector_events", "events %s, <=%d per mode (n_mean=%g, loss=%g): %r, brute force %r" % (evs, mc, case["n_mean"], case["loss"], list(fe), want_e))
        if fom is not None and (len(fom) != 1 or abs(float(fom[0]) - pom) > 1e-12):
            return ctx.fail("similarity.feature_vector_orbits_mc", "samples=%d, same numpy seed: %r vs prob_orbit_mc %.12g" % (case["mc_samples"], list(fom), pom))
        if fem is not None and (len(fem) != 1 or abs(float(fem[0]) - pem) > 1e-12):
            return ctx.fail("similarity.feature_vector_events_mc", "samples=%d, same numpy seed: %r vs prob_event_mc %.12g" % (case["mc_samples"], list(fem), pem))
    return None


# =============================================================================================
# vibronic
# =============================================================================================
FREQ = gen.fl(100.0, 4000.0)


@st.composite
def orthogonal(draw, n, kinds=("identity", "perm", "orth", "orth", "perturbed")):
    kind = draw(st.sampled_from(list(kinds)))
    if n == 1 and kind in ("perm", "orth"):
        kind = "identity"
    if kind == "identity":
        U = np.eye(n)
    elif kind == "perm":
        U = np.eye(n)[list(draw(st.permutations(list(range(n)))))]
    else:
        U = np.real(gen._qr_unitary(draw(gen.ginibre(n, complex_=False))))  # pylint: disable=protected-access
        if kind == "perturbed":
            G = np.array(draw(st.lists(gen.fl(-1.0, 1.0), min_size=n * n, max_size=n * n))).reshape(n, n)
            U = U + 0.15 / n * G  # |perturbation|_2 <= 0.15 < 1: stays invertible
    return kind, U


@st.composite
def vib_case(draw):
    n = draw(st.integers(1, 4))
    kind, Ud = draw(orthogonal(n))
    T = draw(st.one_of(st.just(0.0), gen.fl(1.0, 2000.0), st.sampled_from([300.0, 1000.0])))
    inp = [[draw(gen.fl(-0.4, 0.4)), draw(gen.angle()), draw(gen.fl(0.0, 0.8)), draw(gen.angle())] for _ in range(n)]
    case = {"n": n, "w": draw(st.lists(FREQ, min_size=n, max_size=n)), "wp": draw(st.lists(FREQ, min_size=n, max_size=n)),
            "Ud": spec.enc_matrix(Ud), "Ud_kind": kind, "delta": draw(st.lists(gen.fl(-2.0, 2.0), min_size=n, max_size=n)),
            "T": T, "input": inp}
    # samples for vibronic.energies: 2n counts each (first half <-> wp, second half <-> w); the first one is also passed alone
    case["esamples"] = [draw(st.lists(st.integers(0, 4), min_size=2 * n, max_size=2 * n)) for _ in range(draw(st.integers(1, 3)))]
    # the operation fed DIRECTLY (not through gbs_params, whose matrices are real orthogonal and whose alpha is real): complex unitaries,
    # squeezing of either sign, complex displacements - "U1 (array): unitary matrix", "alpha (array): displacement parameters"
    if draw(st.integers(0, 2)) == 0:
        k1, U1 = draw(gen.unitary(n, ["haar", "haar", "diag", "permdiag", "orth"]))
        k2, U2 = draw(gen.unitary(n, ["haar", "haar", "diag", "permdiag", "identity"]))
        case["direct"] = {"U1": spec.enc_matrix(U1.astype(complex)), "U2": spec.enc_matrix(U2.astype(complex)), "kinds": [k1, k2],
                          "r": draw(st.lists(gen.fl(-0.6, 0.6), min_size=n, max_size=n)),
                          "alpha": [[draw(gen.fl(-1.0, 1.0)), draw(st.one_of(st.just(0.0), gen.fl(-1.0, 1.0)))] for _ in range(n)]}
    return case


def vt_vs_ref(ctx, case, U1, r, U2, alpha, what):
    """VibronicTransition(U1, r, U2, alpha) on the gaussian backend vs refsim D(alpha) R(U2) S(r) R(U1), on the displaced squeezed input
    of the case; returns (failure signature, detail) or None"""
    import strawberryfields as sf
    from strawberryfields import ops
    from strawberryfields.apps.qchem import vibronic

    n = case["n"]
    ref = refsim.Ref(n, 2.0)
    prog = sf.Program(n)
    with prog.context as q:
        for i, (rs, ps, rd, pd) in enumerate(case["input"]):
            ops.Sgate(rs, ps) | q[i]  # pylint: disable=expression-not-assigned
            ops.Dgate(rd, pd) | q[i]  # pylint: disable=expression-not-assigned
        vibronic.VibronicTransition(U1, r, U2, alpha) | tuple(q)  # pylint: disable=expression-not-assigned
    state = sf.Engine("gaussian").run(prog).state
    mu, V = np.array(state.means(), float), np.array(state.cov(), float)
    for i, (rs, ps, rd, pd) in enumerate(case["input"]):
        ref.Sgate(rs, ps, i)
        ref.Dgate(rd, pd, i)
    ref.Interferometer(U1, list(range(n)))
    for i in range(n):
        ref.Sgate(float(r[i]), 0.0, i)
    ref.Interferometer(U2, list(range(n)))
    for i in range(n):
        ref.Dgate(abs(alpha[i]), float(np.angle(alpha[i])), i)
    tol = 1e-8 * (1 + float(np.max(np.abs(ref.V))))
    dm, dv = float(np.max(np.abs(mu - ref.mu))), float(np.max(np.abs(V - ref.V)))
    _track(ctx, "vib_op_err", max(dm, dv) / (1 + float(np.max(np.abs(ref.V)))))
    if dm > tol or dv > tol:
        return ("VibronicTransition.vs_reference", "%s: D(alpha) R(U2) S(r) R(U1) on the reference gives a different state: |dmu|=%.3g |dV|=%.3g (tol %.2g)" % (what, dm, dv, tol))
    return None


def check_vib(ctx, case):
    import strawberryfields as sf
    from strawberryfields import ops
    from strawberryfields.apps.qchem import vibronic

    n = case["n"]
    w, wp = np.array(case["w"], float), np.array(case["wp"], float)
    Ud = spec.dec_param(case["Ud"])
    delta = np.array(case["delta"], float)
    T = float(case["T"])
    labs = ["vibronic", "n=%d" % n, "Ud:" + case["Ud_kind"], "T=0" if T == 0 else "T>0"]
    try:
        t, U1, r, U2, alpha = vibronic.gbs_params(w.copy(), wp.copy(), Ud.copy(), delta.copy(), T)
    except Exception as exc:  # pylint: disable=broad-except
        ctx.note(case, False, labs)
        return ctx.crash(exc, "gbs_params")
    t, U1, r, U2, alpha = (np.asarray(v) for v in (t, U1, r, U2, alpha))
    ctx.note(case, nontrivial=bool(np.max(np.abs(Ud - np.eye(n))) > 1e-9), labels=labs)
    J = np.diag(np.sqrt(wp)) @ Ud @ np.diag(1 / np.sqrt(w))
    sc = 1 + float(np.max(np.abs(J)))
    eJ = float(np.max(np.abs(U2 @ np.diag(np.exp(r)) @ U1 - J)))
    eO = max(float(np.max(np.abs(U1 @ U1.T - np.eye(n)))), float(np.max(np.abs(U2 @ U2.T - np.eye(n)))))
    _track(ctx, "vib_J_err", eJ / sc)
    _track(ctx, "vib_orth_err", eO)
    if U1.shape != (n, n) or U2.shape != (n, n) or r.shape != (n,) or eJ > 1e-9 * sc:
        return ctx.fail("gbs_params.duschinsky_relation", "U2 exp(r) U1 differs from Wp^1/2 Ud W^-1/2 by %.3g" % eJ)
    if eO > 1e-9 or np.iscomplexobj(U1) or np.iscomplexobj(U2):
        return ctx.fail("gbs_params.not_orthogonal", "U1/U2 deviate from orthogonality by %.3g" % eO)
    if alpha.shape != (n,) or np.max(np.abs(alpha - delta / math.sqrt(2))) > 1e-12:
        return ctx.fail("gbs_params.alpha", "alpha %s is not delta/sqrt(2) %s" % (alpha.tolist(), (delta / math.sqrt(2)).tolist()))
    # thermal two-mode squeezing: sinh^2 t = Bose-Einstein occupation <=> tanh^2 t = exp(-h c w / k T)
    if T > 0:
        boltz = np.exp(-H_PLANCK * C_LIGHT * 100.0 * w / (K_BOLTZ * T))
    else:
        boltz = np.zeros(n)
    eT = float(np.max(np.abs(np.tanh(t) ** 2 - boltz)))
    _track(ctx, "vib_thermal_err", eT)
    if t.shape != (n,) or np.any(t < 0) or eT > 1e-7:
        return ctx.fail("gbs_params.thermal_t", "tanh^2(t) = %s, Boltzmann factors exp(-hcw/kT) = %s" % ((np.tanh(t) ** 2).tolist(), boltz.tolist()))
    # the operation vs refsim
    ref = refsim.Ref(n, 2.0)
    prog = sf.Program(n)
    try:
        with prog.context as q:
            for i, (rs, ps, rd, pd) in enumerate(case["input"]):
                ops.Sgate(rs, ps) | q[i]  # pylint: disable=expression-not-assigned
                ops.Dgate(rd, pd) | q[i]  # pylint: disable=expression-not-assigned
            vibronic.VibronicTransition(U1, r, U2, alpha) | tuple(q)  # pylint: disable=expression-not-assigned
        state = sf.Engine("gaussian").run(prog).state
        mu, V = np.array(state.means(), float), np.array(state.cov(), float)
    except Exception as exc:  # pylint: disable=broad-except
        return ctx.crash(exc, "VibronicTransition")
    for i, (rs, ps, rd, pd) in enumerate(case["input"]):
        ref.Sgate(rs, ps, i)
        ref.Dgate(rd, pd, i)
    ref.Interferometer(U1, list(range(n)))
    for i in range(n):
        ref.Sgate(float(r[i]), 0.0, i)
    ref.Interferometer(U2, list(range(n)))
    for i in range(n):
        ref.Dgate(abs(alpha[i]), float(np.angle(alpha[i])), i)
    tol = 1e-8 * (1 + float(np.max(np.abs(ref.V))))
    dm, dv = float(np.max(np.abs(mu - ref.mu))), float(np.max(np.abs(V - ref.V)))
    if dm > tol or dv > tol:
        if n == 1 and not np.iscomplexobj(U1) and not np.iscomplexobj(U2) and (U1[0, 0] < 0 or U2[0, 0] < 0):
            # prediction of the ops.Interferometer defect: a real-dtype 1x1 matrix [[-1.]] is compiled to nothing
            pred = refsim.Ref(1, 2.0)
            rs, ps, rd, pd = case["input"][0]
            pred.Sgate(rs, ps, 0)
            pred.Dgate(rd, pd, 0)
            if U1[0, 0] > 0:
                pred.Interferometer(U1, [0])
            pred.Sgate(float(r[0]), 0.0, 0)
            if U2[0, 0] > 0:
                pred.Interferometer(U2, [0])
            pred.Dgate(abs(alpha[0]), float(np.angle(alpha[0])), 0)
            if max(float(np.max(np.abs(mu - pred.mu))), float(np.max(np.abs(V - pred.V)))) <= tol:
                return ctx.fail("Interferometer.real_1x1_minus_one_dropped", "one-mode VibronicTransition with U1=%s U2=%s: the real 1x1 interferometer [[-1.]] is dropped (|dmu|=%.3g |dV|=%.3g); state equals the prediction without it" % (U1.tolist(), U2.tolist(), dm, dv))
        return ctx.fail("VibronicTransition.vs_reference", "D(alpha) R(U2) S(r) R(U1) on the reference gives a different state: |dmu|=%.3g |dV|=%.3g (tol %.2g)" % (dm, dv, tol))
    _track(ctx, "vib_op_err", max(dm, dv) / (1 + float(np.max(np.abs(ref.V)))))
    # negative temperatures are documented rejections
    try:
        vibronic.gbs_params(w, wp, Ud, delta, -1.0)
        return ctx.fail("gbs_params.negative_T_accepted", "T = -1 accepted")
    except ValueError:
        pass
    # ---- the operation with directly supplied parameters (complex unitaries / displacements)
    if case.get("direct"):
        d = case["direct"]
        dU1, dU2 = spec.dec_param(d["U1"]), spec.dec_param(d["U2"])
        dr = np.array(d["r"], float)
        dal = np.array([complex(a, b) for a, b in d["alpha"]])
        ctx.label("vt_direct", "vt_direct:complex_alpha" if np.any(dal.imag != 0) else "vt_direct:real_alpha",
                  "vt_direct:complex_U" if np.any(dU1.imag != 0) or np.any(dU2.imag != 0) else "vt_direct:real_U")
        try:
            bad = vt_vs_ref(ctx, case, dU1, dr, dU2, dal, "directly supplied parameters (U kinds %s)" % (d.get("kinds"),))
        except Exception as exc:  # pylint: disable=broad-except
            return ctx.crash(exc, "VibronicTransition.direct")
        if bad:
            return ctx.fail(bad[0] + ".direct_parameters", bad[1])
    # ---- energies: E = sum_k m_k wp_k - sum_k n_k w_k, m = first half of the sample, n = second half
    es = case.get("esamples")
    if es:
        ctx.label("energies")
        try:
            e_list = vibronic.energies([list(x) for x in es], w.copy(), wp.copy())
            e_one = vibronic.energies(list(es[0]), w.copy(), wp.copy())
        except Exception as exc:  # pylint: disable=broad-except
            return ctx.crash(exc, "energies")
        want = [sum(x[k] * wp[k] for k in range(n)) - sum(x[n + k] * w[k] for k in range(n)) for x in es]
        sc_e = 1 + max(abs(v) for v in want)
        if not isinstance(e_list, list) or len(e_list) != len(es) or max(abs(float(a) - b) for a, b in zip(e_list, want)) > 1e-9 * sc_e:
            return ctx.fail("vibronic.energies.list", "energies(%s, w=%s, wp=%s) = %r, expected %r" % (es, w.tolist(), wp.tolist(), e_list, want))
        if np.ndim(e_one) != 0 or abs(float(e_one) - want[0]) > 1e-9 * sc_e:
            return ctx.fail("vibronic.energies.single_sample", "energies(%s, w=%s, wp=%s) = %r, expected %r" % (es[0], w.tolist(), wp.tolist(), e_one, want[0]))
    return None


# =============================================================================================
# dynamics
# =============================================================================================
def omega_t(w, t):
    """omega t with omega = 2 pi c w (w in cm^-1), t in fs"""
    return 2 * np.pi * C_LIGHT * 100.0 * np.asarray(w, float) * float(t) * 1e-15


@st.composite
def dyn_case(draw):
    n = draw(st.integers(1, 3))
    cutoff = draw(st.integers(3, 5 if n < 3 else 4))
    pats = patterns_upto(n, cutoff - 1)
    amps = draw(st.lists(st.one_of(st.just(0.0), gen.fl(-1.0, 1.0)), min_size=2 * len(pats), max_size=2 * len(pats)))
    if not any(amps):
        amps[0] = 1.0
    tt = st.one_of(gen.fl(0.0, 100.0), st.sampled_from([0.0, 1.0, 10.0]))
    inp = [[draw(gen.fl(-0.4, 0.4)), draw(gen.angle()), draw(gen.fl(0.0, 0.8)), draw(gen.angle())] for _ in range(n)]
    return {"n": n, "cutoff": cutoff, "amps": amps, "w": draw(st.lists(FREQ, min_size=n, max_size=n)), "t1": draw(tt), "t2": draw(tt),
            "Ul": spec.enc_matrix(draw(orthogonal(n, ("identity", "perm", "orth", "orth")))[1]), "input": inp}


def check_dyn(ctx, case):
    import strawberryfields as sf
    from strawberryfields import ops
    from strawberryfields.apps.qchem import dynamics

    n, cutoff = case["n"], case["cutoff"]
    w = np.array(case["w"], float)
    t1, t2 = float(case["t1"]), float(case["t2"])
    Ul = spec.dec_param(case["Ul"])
    pats = patterns_upto(n, cutoff - 1)
    ket = np.zeros((cutoff,) * n, complex)
    for k, p in enumerate(pats):
        ket[p] = complex(case["amps"][2 * k], case["amps"][2 * k + 1])
    ket = ket / np.linalg.norm(ket)
    labs = ["dynamics", "n=%d" % n, "cutoff=%d" % cutoff]

    def run_fock(times, sandwich=False):
        prog = sf.Program(n)
        with prog.context as q:
            ops.Ket(ket.copy()) | tuple(q)  # pylint: disable=expression-not-assigned
            if sandwich:
                ops.Interferometer(Ul.T) | tuple(q)  # pylint: disable=expression-not-assigned
            for t in times:
                dynamics.TimeEvolution(w.copy(), t) | tuple(q)  # pylint: disable=expression-not-assigned
            if sandwich:
                ops.Interferometer(Ul) | tuple(q)  # pylint: disable=expression-not-assigned
        st_ = sf.Engine("fock", backend_options={"cutoff_dim": cutoff}).run(prog).state
        return np.asarray(st_.ket()).reshape((cutoff,) * n)

    try:
        k1 = run_fock([t1])
        k12 = run_fock([t1, t2])
        ksum = run_fock([t1 + t2])
        ks = run_fock([t1], sandwich=True) if n > 1 else None
    except Exception as exc:  # pylint: disable=broad-except
        ctx.note(case, False, labs)
        return ctx.crash(exc, "TimeEvolution.fock")
    ctx.note(case, nontrivial=bool(n >= 2 and t1 != 0 and len(set(case["w"])) > 1), labels=labs)
    nvec = np.indices((cutoff,) * n).reshape(n, -1).T.reshape((cutoff,) * n + (n,))
    want1 = ket * np.exp(-1j * (nvec @ omega_t(w, t1)))
    e1 = float(np.max(np.abs(k1 - want1)))
    _track(ctx, "dyn_phase_err", e1)
    if float(np.max(np.abs(np.abs(k1) ** 2 - np.abs(ket) ** 2))) > 1e-9:
        return ctx.fail("TimeEvolution.photon_number_not_conserved", "joint photon-number distribution changed by %.3g" % np.max(np.abs(np.abs(k1) ** 2 - np.abs(ket) ** 2)))
    if e1 > 1e-8:
        return ctx.fail("TimeEvolution.phase", "amplitudes are not c_n exp(-i 2 pi c w t n): max deviation %.3g (t=%g fs, w=%s cm^-1)" % (e1, t1, w.tolist()))
    e2 = float(np.max(np.abs(k12 - ksum)))
    _track(ctx, "dyn_additivity_err", e2)
    if e2 > 1e-8:
        return ctx.fail("TimeEvolution.not_additive", "U(t2) U(t1) differs from U(t1+t2) by %.3g" % e2)
    if ks is not None:
        tot = nvec.sum(axis=-1)
        d_in = np.array([np.sum(np.abs(ket[tot == k]) ** 2) for k in range(n * (cutoff - 1) + 1)])
        d_out = np.array([np.sum(np.abs(ks[tot == k]) ** 2) for k in range(n * (cutoff - 1) + 1)])
        e3 = float(np.max(np.abs(d_in - d_out)))
        _track(ctx, "dyn_total_number_err", e3)
        if e3 > 1e-8:
            return ctx.fail("TimeEvolution.total_number_distribution", "Ul U(t) Ul^T changed the total photon-number distribution by %.3g" % e3)
    # gaussian backend vs refsim rotation by -omega t
    ref = refsim.Ref(n, 2.0)
    prog = sf.Program(n)
    try:
        with prog.context as q:
            for i, (rs, ps, rd, pd) in enumerate(case["input"]):
                ops.Sgate(rs, ps) | q[i]  # pylint: disable=expression-not-assigned
                ops.Dgate(rd, pd) | q[i]  # pylint: disable=expression-not-assigned
            dynamics.TimeEvolution(w.copy(), t1) | tuple(q)  # pylint: disable=expression-not-assigned
        state = sf.Engine("gaussian").run(prog).state
        mu, V = np.array(state.means(), float), np.array(state.cov(), float)
    except Exception as exc:  # pylint: disable=broad-except
        return ctx.crash(exc, "TimeEvolution.gaussian")
    for i, (rs, ps, rd, pd) in enumerate(case["input"]):
        ref.Sgate(rs, ps, i)
        ref.Dgate(rd, pd, i)
    n_before = [ref.mean_photon(i) for i in range(n)]
    th = omega_t(w, t1)
    for i in range(n):
        ref.Rgate(-float(th[i]), i)
    tol = 1e-8 * (1 + float(np.max(np.abs(ref.V))))
    dm, dv = float(np.max(np.abs(mu - ref.mu))), float(np.max(np.abs(V - ref.V)))
    _track(ctx, "dyn_gauss_err", max(dm, dv) / (1 + float(np.max(np.abs(ref.V)))))
    if dm > tol or dv > tol:
        return ctx.fail("TimeEvolution.gaussian_vs_reference", "rotation by -2 pi c w t on the reference gives a different state: |dmu|=%.3g |dV|=%.3g" % (dm, dv))
    n_after = [float(state.mean_photon(i)[0]) for i in range(n)]
    if max(abs(a - b) for a, b in zip(n_before, n_after)) > 1e-8 * (1 + max(n_before)):
        return ctx.fail("TimeEvolution.mean_photon_changed", "mean photon numbers %s -> %s" % (n_before, n_after))
    return None


# =============================================================================================
# duschinsky
# =============================================================================================
@st.composite
def dus_case(draw):
    k = draw(st.integers(1, 5))  # number of cartesian coordinates
    square = draw(st.booleans())
    M = k if square else draw(st.integers(1, k))
    Li = draw(orthogonal(k, ("identity", "perm", "orth", "orth")))[1][:, :M]
    Lf = draw(orthogonal(k, ("identity", "perm", "orth", "orth")))[1][:, :M]
    vec = lambda lo, hi, size: draw(st.lists(gen.fl(lo, hi), min_size=size, max_size=size))  # noqa: E731
    return {"k": k, "M": M, "Li": spec.enc_matrix(Li), "Lf": spec.enc_matrix(Lf), "ri": vec(-2.0, 2.0, k), "rf": vec(-2.0, 2.0, k),
            "wf": draw(st.lists(FREQ, min_size=M, max_size=M)), "mass": vec(1.0, 40.0, k), "r": vec(-2.0, 2.0, k)}


def check_dus(ctx, case):
    from strawberryfields.apps.qchem import utils

    k, M = case["k"], case["M"]
    Li, Lf = spec.dec_param(case["Li"]).reshape(k, M), spec.dec_param(case["Lf"]).reshape(k, M)
    ri, rf, wf, mass, r = (np.array(case[x], float) for x in ("ri", "rf", "wf", "mass", "r"))
    labs = ["duschinsky", "square" if k == M else "rectangular", "k=%d" % k]
    try:
        U, delta = utils.duschinsky(Li.copy(), Lf.copy(), ri.copy(), rf.copy(), wf.copy(), mass.copy())
    except Exception as exc:  # pylint: disable=broad-except
        ctx.note(case, False, labs)
        return ctx.crash(exc, "duschinsky")
    U, delta = np.asarray(U), np.asarray(delta)
    ctx.note(case, nontrivial=bool(np.max(np.abs(U - np.eye(M))) > 1e-9), labels=labs)
    Uo = np.array([[sum(Lf[a, i] * Li[a, j] for a in range(k)) for j in range(M)] for i in range(M)])
    d = np.array([sum(Lf[a, i] * math.sqrt(mass[a]) * (ri[a] - rf[a]) for a in range(k)) for i in range(M)])
    if U.shape != (M, M) or np.max(np.abs(U - Uo)) > 1e-12:
        return ctx.fail("duschinsky.U", "U is not Lf^T Li")
    want = own_linv(wf) * d
    e = float(np.max(np.abs(delta - want))) / (1 + float(np.max(np.abs(want))))
    _track(ctx, "dus_delta_err", e)
    if delta.shape != (M,) or e > 1e-7:
        return ctx.fail("duschinsky.delta", "delta %s differs from l^-1 Lf^T sqrt(m) (ri - rf) = %s" % (delta.tolist(), want.tolist()))
    if k == M:
        # complete orthonormal mode matrices: q = L^T sqrt(m) (r - r_e) obeys q_f = U q_i + d for every geometry r
        qi = Li.T @ (np.sqrt(mass) * (r - ri))
        qf = Lf.T @ (np.sqrt(mass) * (r - rf))
        dd = delta / own_linv(wf)
        e2 = float(np.max(np.abs(qf - (U @ qi + dd)))) / (1 + float(np.max(np.abs(qf))) + float(np.max(np.abs(dd))))
        _track(ctx, "dus_relation_err", e2)
        if e2 > 1e-7:
            return ctx.fail("duschinsky.defining_relation", "q_f = U q_i + d violated by %.3g (relative)" % e2)
    return None


# =============================================================================================
# marginals / prob
# =============================================================================================
@st.composite
def marg_case(draw):
    n = draw(st.integers(1, 3))
    ops_ = draw(gen.op_list(n, ["Dgate", "Sgate", "BSgate", "Rgate", "S2gate", "Thermal", "LossChannel"], "fock", 1, 5))
    k = draw(st.integers(1, 6))
    samples = [draw(st.lists(st.integers(0, 2), min_size=n, max_size=n)) for _ in range(k)]
    return {"n": n, "hbar": draw(st.sampled_from([2.0, 2.0, 1.0, 0.5])), "ops": ops_, "n_max": draw(st.integers(1, 5)),
            "samples": samples, "target": samples[draw(st.integers(0, k - 1))] if draw(st.booleans()) else draw(st.lists(st.integers(0, 2), min_size=n, max_size=n))}


def check_marg(ctx, case):
    from strawberryfields.apps.qchem import utils

    n, hbar, n_max = case["n"], case["hbar"], case["n_max"]
    ref = spec.ref_run(n, case["ops"], hbar)
    labs = ["marginals", "n=%d" % n, "hbar=%g" % hbar] + gen.labels_of(case["ops"])
    try:
        got = np.asarray(utils.marginals(ref.mu.copy(), ref.V.copy(), n_max, hbar=hbar))
        fr = utils.prob([list(s) for s in case["samples"]], list(case["target"]))
    except Exception as exc:  # pylint: disable=broad-except
        ctx.note(case, False, labs)
        return ctx.crash(exc, "marginals")
    ctx.note(case, nontrivial=n >= 2 and gen.has_two_mode(case["ops"]), labels=labs)
    if got.shape != (n, n_max):
        return ctx.fail("marginals.shape", "shape %r, expected (%d, %d)" % (got.shape, n, n_max))
    for k in range(n):
        mu, V = ref.reduced([k])
        want = np.array([gauss_prob(mu, V, [j], hbar) for j in range(n_max)])
        e = float(np.max(np.abs(got[k] - want)))
        _track(ctx, "marginals_err", e)
        if e > 5e-8:
            return ctx.fail("marginals.vs_reference", "mode %d: %s vs the photon statistics of the reduced reference state %s (hbar=%g)" % (k, got[k].tolist(), want.tolist(), hbar))
        if np.any(got[k] < -1e-12) or np.sum(got[k]) > 1 + 1e-9:
            return ctx.fail("marginals.not_distribution", "mode %d: %s" % (k, got[k].tolist()))
    want = sum(1 for s in case["samples"] if list(s) == list(case["target"])) / len(case["samples"])
    if abs(fr - want) > 1e-15:
        return ctx.fail("qchem.prob", "relative frequency %r, expected %r" % (fr, want))
    return None


# =============================================================================================
# samplers (structure only)
# =============================================================================================
@st.composite
def rotation(draw, n):
    """plane rotation by an angle in [0.3, 1.2] embedded in n >= 2 modes: orthogonal and NOT symmetric (U^T != U, U U != 1), unlike
    the reflections that make up half of the QR-generated 2x2 orthogonal matrices"""
    i, j = draw(st.permutations(list(range(n))))[:2]
    th = draw(gen.fl(0.3, 1.2))
    U = np.eye(n)
    U[i, i] = U[j, j] = math.cos(th)
    U[i, j], U[j, i] = -math.sin(th), math.sin(th)
    return U


@st.composite
def samp_case(draw):
    fn = draw(st.sampled_from(["tmsv", "vibronic", "fock", "coherent", "vibronic"]))  # (Hypothesis favours the early entries)
    # loss = 1 (everything is lost) is the documented upper end of the loss range: the sample is all zeros with certainty
    loss = draw(st.sampled_from([0.0, 0.0, 0.0, 0.3, 1.0]))
    if fn == "vibronic":
        # generic / alpha = 0 (photons are created in pairs: the two halves of a lossless sample have the same parity) /
        # pairs (no interferometer, no squeezing, no displacement: only the two-mode squeezers, the halves are equal mode by mode)
        vk = draw(st.sampled_from(["generic", "generic", "alpha0", "pairs"]))
        N = 2 if vk == "pairs" else draw(st.integers(1, 2))
        if vk == "pairs" and loss:
            loss = 0.0
        case = {"fn": fn, "N": N, "n_samples": draw(st.integers(1, 3)), "loss": loss, "seed": draw(st.integers(0, 2 ** 31 - 1)),
                "w": draw(st.lists(FREQ, min_size=N, max_size=N)), "t": draw(gen.fl(0.0, 50.0))}
        tk = draw(st.sampled_from(["zero", "positive", "mixed"]))
        if vk == "pairs" and tk == "zero":
            tk = "positive"
        if tk == "mixed" and N == 1:
            tk = "positive"
        tamp = gen.fl(0.3, 0.8) if vk == "pairs" else gen.fl(0.05, 0.4)
        tv = [0.0 if tk == "zero" else draw(tamp) for _ in range(N)]
        if tk == "mixed":
            tv[draw(st.integers(0, N - 1))] = 0.0
        ukinds = ("identity",) if vk == "pairs" else ("identity", "orth")
        case["also_total_loss"] = True
        case.update({"tsq": tv, "tkind": tk, "U1": spec.enc_matrix(draw(orthogonal(N, ukinds))[1]),
                     "U2": spec.enc_matrix(draw(orthogonal(N, ukinds))[1]),
                     "r": [0.0] * N if vk == "pairs" else draw(st.lists(gen.fl(-0.3, 0.3), min_size=N, max_size=N)),
                     "alpha": [0.0] * N if vk != "generic" else draw(
                         st.lists(st.one_of(st.sampled_from([0.8, 1.0, -1.2]), gen.fl(-1.0, 1.0)), min_size=N, max_size=N))})
        return case
    # dynamics: generic / t = 0 with a non-symmetric orthogonal Ul (Ul 1 Ul^T = 1: nothing happens) / Ul a permutation or the identity
    # (Ul D Ul^T is diagonal: only phases).  In the last two the lossless sample is determined by the input with certainty.
    dk = draw(st.sampled_from(["zero_time", "generic", "diag_Ul", "zero_time"]))
    N = draw(st.integers(2, 3)) if fn == "fock" else (draw(st.integers(1, 3)) if fn == "coherent" else draw(st.integers(1, 2)))
    if dk == "zero_time":
        N = max(N, 2)
    case = {"fn": fn, "N": N, "n_samples": draw(st.integers(3, 6) if dk != "generic" else st.integers(1, 3)), "loss": loss,
            "seed": draw(st.integers(0, 2 ** 31 - 1)), "w": draw(st.lists(FREQ, min_size=N, max_size=N)),
            "t": 0.0 if dk == "zero_time" else draw(gen.fl(0.0, 50.0))}
    if dk == "zero_time":
        Ul = draw(orthogonal(N, ("orth",)))[1] if draw(st.integers(0, 3)) == 3 else draw(rotation(N))
    elif dk == "diag_Ul":
        Ul = draw(orthogonal(N, ("identity", "perm", "perm")))[1]
    else:
        Ul = draw(orthogonal(N, ("identity", "perm", "orth", "orth")))[1]
    case["Ul"] = spec.enc_matrix(Ul)
    case["also_total_loss"] = True
    if fn == "fock":
        case["input"] = draw(st.lists(st.integers(0, 2), min_size=N, max_size=N))
        case["cutoff"] = sum(case["input"]) + 1 + draw(st.integers(0, 1))
    elif fn == "coherent":
        # amplitude exactly 0 in some modes: a mode that is in the vacuum and (t = 0 / diagonal Ul) uncoupled never clicks
        if dk == "generic":
            case["alpha"] = [[draw(st.one_of(st.just(0.0), gen.fl(0.0, 0.8), gen.fl(0.6, 1.2))), draw(gen.angle())] for _ in range(N)]
        else:  # one empty mode next to bright ones
            z = draw(st.integers(0, N - 1))
            case["alpha"] = [[0.0 if i == z else draw(gen.fl(0.8, 1.4)), draw(gen.angle())] for i in range(N)]
    else:
        case["r"] = [[draw(gen.fl(0.0, 0.5) if dk == "generic" else gen.fl(0.5, 1.0)), draw(gen.angle())] for _ in range(N)]
    return case


def _is_signed_perm(U):
    U = np.asarray(U)
    return bool(np.all(np.sum(U != 0, axis=0) == 1) and np.all(np.sum(U != 0, axis=1) == 1))


def check_samp(ctx, case):
    from strawberryfields.apps.qchem import dynamics, vibronic

    fn, N, ns, loss = case["fn"], case["N"], case["n_samples"], case["loss"]
    labs = ["sampler:" + fn, "lossless" if not loss else ("loss=1" if loss == 1 else "loss")]
    w = np.array(case["w"], float)
    pairs = alpha0 = still = False
    if fn == "vibronic":
        U1, U2 = spec.dec_param(case["U1"]), spec.dec_param(case["U2"])
        alpha0 = not any(case["alpha"])
        pairs = alpha0 and not any(case["r"]) and np.array_equal(U1, np.eye(N)) and np.array_equal(U2, np.eye(N)) and any(case["tsq"])
        labs += ["t_" + case["tkind"]] + (["vib:pairs_only"] if pairs else (["vib:alpha=0"] if alpha0 else []))
    else:
        Ul = spec.dec_param(case["Ul"])
        still = case["t"] == 0 or _is_signed_perm(Ul)  # Ul exp(-i w t n) Ul^T is diagonal: photon numbers of the modes do not change
        if still:
            labs.append("dyn:t=0" if case["t"] == 0 else "dyn:diagonal_Ul")
            if case["t"] == 0 and not np.allclose(Ul, Ul.T, atol=1e-6):
                labs.append("dyn:t=0,Ul_not_symmetric")
    width = 2 * N if fn in ("vibronic", "tmsv") else N

    def call(ns_, loss_):
        if fn == "vibronic":
            return vibronic.sample(np.array(case["tsq"], float), U1, np.array(case["r"], float), U2, np.array(case["alpha"], float), ns_, loss_)
        if fn == "fock":
            return dynamics.sample_fock(list(case["input"]), case["t"], Ul, w.copy(), ns_, case["cutoff"], loss_)
        if fn == "coherent":
            return dynamics.sample_coherent([list(a) for a in case["alpha"]], case["t"], Ul, w.copy(), ns_, loss_)
        return dynamics.sample_tmsv([list(a) for a in case["r"]], case["t"], Ul, w.copy(), ns_, loss_)

    np.random.seed(case["seed"])
    try:
        s = call(ns, loss)
        # the same device once more with everything lost (every case, so that each sampler meets loss = 1 at every seed)
        s_lost = call(1, 1.0) if case.get("also_total_loss") and loss != 1 else None
    except Exception as exc:  # pylint: disable=broad-except
        ctx.note(case, False, labs)
        return ctx.crash(exc, "sample_" + fn)
    ctx.note(case, nontrivial=N >= 2, labels=labs)
    if s_lost is not None:
        ctx.label("second_call_loss=1")
        if not isinstance(s_lost, list) or len(s_lost) != 1 or len(s_lost[0]) != width or any(s_lost[0]):
            return ctx.fail("sampler.%s.total_loss" % fn, "second call with loss = 1 (every photon is lost), one sample requested: %r" % (s_lost,))
    if not isinstance(s, list) or len(s) != ns:
        return ctx.fail("sampler.%s.count" % fn, "%d samples requested, got %r" % (ns, s))
    for row in s:
        if not isinstance(row, list) or len(row) != width:
            if fn == "vibronic" and case["tkind"] == "mixed" and isinstance(row, list) and len(row) == 3 * N:
                return ctx.fail("vibronic.sample.mixed_zero_t_padded_to_3N", "t=%s (some but not all zero): samples have %d entries instead of 2N=%d: %r" % (case["tsq"], len(row), width, row))
            return ctx.fail("sampler.%s.width" % fn, "sample %r does not have %d entries" % (row, width))
        if any((not isinstance(v, int)) or isinstance(v, bool) or v < 0 for v in row):
            return ctx.fail("sampler.%s.not_counts" % fn, "sample %r is not a list of non-negative ints" % (row,))
        if loss == 1 and any(row):
            return ctx.fail("sampler.%s.total_loss" % fn, "loss = 1 (every photon is lost) but the sample is %r" % (row,))
        if fn == "vibronic" and case["tkind"] == "zero" and any(row[N:]):
            return ctx.fail("sampler.vibronic.zero_T_ancilla", "t = 0 but the second half of the sample is %r" % (row[N:],))
        if fn == "vibronic" and not loss and alpha0 and (sum(row[:N]) - sum(row[N:])) % 2:
            return ctx.fail("sampler.vibronic.pair_parity", "alpha = 0, no loss: photons are created in pairs, but the halves of %r differ in parity" % (row,))
        if fn == "vibronic" and not loss and pairs and row[:N] != row[N:]:
            return ctx.fail("sampler.vibronic.two_mode_squeezed_pairs", "only two-mode squeezers t=%s act: halves of %r must be equal" % (case["tsq"], row))
        if fn == "fock" and (sum(row) > sum(case["input"]) or (not loss and sum(row) != sum(case["input"]))):
            return ctx.fail("sampler.fock.photon_number", "input %s -> sample %s (loss=%g)" % (case["input"], row, loss))
        if fn == "fock" and still and not loss and row != list(case["input"]):
            return ctx.fail("sampler.fock.trivial_dynamics", "t=%g, Ul=%s: Ul U(t) Ul^T is diagonal, yet input %s -> sample %s" % (case["t"], np.round(Ul, 4).tolist(), case["input"], row))
        if fn == "fock" and still and loss and any(a > b for a, b in zip(row, case["input"])):
            return ctx.fail("sampler.fock.trivial_dynamics", "t=%g, diagonal evolution with loss: input %s -> sample %s gained photons in a mode" % (case["t"], case["input"], row))
        if fn == "tmsv" and not loss and sum(row[:N]) != sum(row[N:]):
            return ctx.fail("sampler.tmsv.photon_pairs", "lossless TMSV sample %s: halves carry different photon numbers" % (row,))
        if fn == "tmsv" and still and not loss and row[:N] != row[N:]:
            return ctx.fail("sampler.tmsv.trivial_dynamics", "t=%g, Ul=%s: Ul U(t) Ul^T is diagonal, yet the halves of %s differ" % (case["t"], np.round(Ul, 4).tolist(), row))
        if fn == "coherent" and still and any(v and not a[0] for v, a in zip(row, case["alpha"])):
            return ctx.fail("sampler.coherent.trivial_dynamics", "t=%g, Ul=%s: Ul U(t) Ul^T is diagonal, amplitudes %s, yet a vacuum mode clicked: %s" % (
                case["t"], np.round(Ul, 4).tolist(), [a[0] for a in case["alpha"]], row))
    return None


# =============================================================================================
SUBS = [
    Sub("kl_grad", check=check_kl, strategy=lambda ctx: kl_case(), examples={"quick": 250, "thorough": 2500},
        shards={"quick": 2, "thorough": 16}, rule="KL.grad vs Richardson finite differences of KL.evaluate, PNR mode, edge-built data"),
    Sub("stochastic_grad", check=check_stoch, strategy=lambda ctx: stoch_case(), examples={"quick": 250, "thorough": 2500},
        shards={"quick": 1, "thorough": 16}, rule="Stochastic.grad vs finite differences of evaluate on one fixed sample set, PNR mode"),
    Sub("jacobian", check=check_jac, strategy=lambda ctx: jac_case(), examples={"quick": 400, "thorough": 4000},
        shards={"quick": 1, "thorough": 4}, rule="embedding weights/jacobian vs exp(-F theta) and finite differences"),
    Sub("model_probs", check=check_probs, strategy=lambda ctx: probs_case(), examples={"quick": 120, "thorough": 1500},
        shards={"quick": 3, "thorough": 16}, rule="VGBS scale/W/A, A_to_cov, PNR and click probabilities, means vs the refsim state of A(theta)"),
    Sub("similarity", check=check_sim, strategy=lambda ctx: sim_case(), examples={"quick": 150, "thorough": 1500},
        shards={"quick": 2, "thorough": 16}, rule="orbit/event probabilities vs brute force over the reference state, MC inside rigorous bounds"),
    Sub("vibronic", check=check_vib, strategy=lambda ctx: vib_case(), examples={"quick": 300, "thorough": 3000},
        shards={"quick": 1, "thorough": 8}, rule="gbs_params relations and VibronicTransition vs refsim"),
    Sub("dynamics", check=check_dyn, strategy=lambda ctx: dyn_case(), examples={"quick": 150, "thorough": 1500},
        shards={"quick": 2, "thorough": 16}, rule="TimeEvolution phases/additivity/number conservation on fock, rotation on gaussian vs refsim"),
    Sub("duschinsky", check=check_dus, strategy=lambda ctx: dus_case(), examples={"quick": 400, "thorough": 4000},
        shards={"quick": 1, "thorough": 4}, rule="utils.duschinsky vs definitions with hand-typed constants"),
    Sub("marginals", check=check_marg, strategy=lambda ctx: marg_case(), examples={"quick": 300, "thorough": 3000},
        shards={"quick": 1, "thorough": 8}, rule="utils.marginals vs own loop-hafnian photon statistics of reduced refsim states; utils.prob"),
    Sub("samplers", check=check_samp, strategy=lambda ctx: samp_case(), examples={"quick": 300, "thorough": 1500},
        shards={"quick": 1, "thorough": 8}, rule="structure of vibronic.sample / dynamics.sample_* outputs, deterministic photon bookkeeping"),
]

MANIFEST = {
    "technique": "Hypothesis differential testing: finite-difference gradients, brute-force hafnian / inclusion-exclusion probabilities and "
                 "an independent phase-space reference (refsim) vs the train/qchem/similarity helpers",
    "text": ("Generated adjacency matrices, embeddings, parameters, data and molecular parameters: reported gradients are compared with "
             "Richardson-extrapolated finite differences of the reported costs (PNR mode), costs and probabilities with an independent "
             "model (own hafnian, inclusion-exclusion over vacuum probabilities, thewalrus.probabilities of the refsim state), means with "
             "the reference state, gbs_params/VibronicTransition/TimeEvolution/duschinsky with their documented defining relations. "
             "Exploration only: <= 5 modes, <= 4 photons per probability table, samplers checked structurally."),
    "note": "trusted: numpy, thewalrus.quantum.probabilities (pure states only), refsim and the oracle's hafnian formulas (self-tested against closed forms)",
}
