"""C06 - measurements sample the Born distribution and condition the rest correctly.

Statistical claims are turned into deterministic ones with rngspy: the *arguments* the code hands to numpy's samplers must
be the Born distribution computed by the oracle, and with the outcome *forced* the post-measurement state must be the
oracle's conditional state.

  gaussian_dyne       gaussian backend homodyne (any angle) / heterodyne: mean and covariance given to multivariate_normal ==
                      refsim marginal (+ POVM noise); forced outcome -> conditional state == refsim; returned value and hbar scaling
  fock_pnr            fock MeasureFock on any ordered subset: p given to np.random.choice == diagonal of the reduced
                      pre-measurement state (fockref); forced index -> projected state (x) vacuum; samples in ascending mode order
  fock_homodyne       fock homodyne: the grid distribution given to multinomial has the mean/variance of x_phi (fockref); forced
                      bin -> other modes in refsim's conditional state; post-selected value likewise (cross-backend with gaussian)
  bosonic_rejection   bosonic homodyne/heterodyne on multi-peak states: proposal (choice p, normal mean/cov) and the acceptance
                      threshold of the rejection sampler are exactly those of the Born density (threshold probed from both sides)
  bosonic_conditional bosonic MeasureThreshold (forced click / no click), post-selected (also on exactly 0) and sampled (first proposal forced and
                      accepted) homodyne / heterodyne on mixtures of Gaussians (cat, Fock, Gaussian modes; 1..3 modes, up to every mode measured):
                      P(no click) handed to the sampler, the returned value, and the whole post-measurement mixture (moments, Wigner function at
                      generated points) == the POVM element of the reported outcome applied term by term by the oracle
  gaussian_pnr_args   gaussian MeasureFock / MeasureThreshold: reduced mean/cov handed to thewalrus == refsim; sample layout (one row per shot, shots
                      from the run keyword, Program.run_options or compile(shots=..)); registers with unused modes and indices >= 10;
                      MeasureFock(select=..) must be refused, not answered with another outcome
  layout              several measurements in one program, unsorted measured modes, registers of 11..13 modes with measured indices >= 10,
                      modes measured twice, shared MeasureX / MeasureHD instances, bosonic shots > 1: Result.samples has one row per shot and
                      columns in ascending mode order holding the last outcome of each mode, samples_dict[mode] lists all outcomes of the
                      mode in program order, RegRef.val carries the last one (forced, tagged outcomes; heterodyne: real and imaginary part)
  fock_pnr / fock_homodyne also run with an extra, unentangled mode that is deleted before the measurement (backend position != register index)
                      and, for homodyne, on the mixed-state representation
"""
from __future__ import annotations

import numpy as np
from hypothesis import strategies as st

from vf import fockref, gen, refsim, sfrun, spec
from vf.core import Sub
from vf.props.c05 import entangling_prior, ket_from_terms, ket_terms
from vf.rngspy import RngSpy

RULE = ("a correlated prior (entangling Gaussian circuit; Fock: bounded-photon ket/mixture or low-energy Gaussian circuit; bosonic: "
        "cat/Fock/Gaussian modes) followed by one or more measurements of generated type, mode subset/order, angle, select value (incl. exactly 0) and "
        "forced outcome; registers with unused or deleted modes (measured indices >= 10 next to one-digit ones, positions shifted by a Del), "
        "re-measured modes, shots > 1 given by keyword / run options / compile, single-mode registers and every mode measured; "
        "non-trivial = the measured mode is correlated with an unmeasured one and the outcome is not 0")
ASSUMPTIONS = [
    "TensorFlow backend not exercised (not installed)",
    "gaussian/bosonic homodyne uses a finite-squeezing POVM (eps = 2e-4, documented): the oracle adds eps^2 to the sampler variance and "
    "compares conditional states at 1e-5; with the conjugate-quadrature draw forced to its mean",
    "fock homodyne: grid of 1e5 bins on [-10, 10] sqrt(hbar)-units: mean/variance of the sampled distribution compared at 2e-3, conditional "
    "states vs refsim at 5e-3 (truncation + grid); prior energies bounded so that the tail weight is < 1e-6",
    "internal randomness of thewalrus' hafnian/torontonian samplers is not examined: only the arguments handed to them",
    "bosonic rejection sampler: verified per proposal (distribution parameters and acceptance threshold), not by statistics",
    "bosonic sampled homodyne/heterodyne: the oracle conditions on the general-dyne POVM element centred at the drawn phase-space point (x, p) "
    "(for homodyne p enters with variance 1/eps^2, i.e. not at all within the tolerance)",
    "bosonic conditional states (hbar = 2): oracle = weights/means/covs of the pre-measurement state (read from a run without the measurement; "
    "that state is C01's business) with the Gaussian POVM element applied to every term; 1e-7 (2e-5 for the eps-POVM of homodyne), scaled by sum|w|",
]
REQUIRED_LABELS = {"all": ["type:homodyne", "type:heterodyne", "type:fock", "backend:gaussian", "backend:fock", "backend:bosonic",
                           "angle_nonzero", "unsorted_measured_modes", "select", "multi_peak", "threshold_click", "threshold_no_click", "type:threshold",
                           "two_digit_mode_index", "register_with_unused_modes", "measured_after_del", "del_shifts_measured_mode", "remeasured_mode",
                           "layout_multi_shot", "multi_shot", "shots_from_run_options", "select_zero"]}

EPS2 = (2e-4) ** 2


def selftest():
    refsim.selftest()
    fockref.selftest()


def _tol(V, base=1e-5):
    return base * (1 + float(np.max(np.abs(V))))


# ---------------------------------------------------------------------------------------------
# gaussian homodyne / heterodyne
# ---------------------------------------------------------------------------------------------
@st.composite
def gd_case(draw):
    n = draw(st.integers(1, 4))
    hbar = draw(st.sampled_from([2.0, 2.0, 1.0, 0.5, 3.3]))
    prior = draw(entangling_prior(n)) if n > 1 else draw(gen.op_list(1, ["Sgate", "Dgate", "Thermal", "Rgate"], "ps", 1, 3))
    kind = draw(st.sampled_from(["homodyne", "homodyne", "heterodyne"]))
    m = draw(st.integers(0, n - 1))
    phi = draw(gen.angle()) if kind == "homodyne" else 0.0
    delta = [draw(gen.fl(-1.5, 1.5)), draw(gen.fl(-1.5, 1.5))]
    case = {"n": n, "hbar": hbar, "prior": prior, "kind": kind, "mode": m, "phi": phi, "delta": delta, "select": draw(st.integers(0, 2)) == 0}
    if case["select"] and draw(st.integers(0, 3)) == 0:
        case["select_zero"] = True  # post-selection on exactly 0 / 0j (a falsy value)
    return case


def check_gd_select(ctx, case):
    """post-selected variant: the outcome (Born mean + delta) is passed as ``select``; the state must be the conditional state of that value"""
    n, hbar, prior, kind, m, phi = case["n"], case["hbar"], case["prior"], case["kind"], case["mode"], case["phi"]
    ref = spec.ref_run(n, prior, 2.0)
    others = [j for j in range(n) if j != m]
    corr = float(np.max(np.abs(ref.V[np.ix_([m, m + n], [j for o in others for j in (o, o + n)])]))) if others else 0.0
    zero = bool(case.get("select_zero"))
    labels = ["backend:gaussian", "type:" + kind, "select"] + (["angle_nonzero"] if phi != 0 else []) + (["select_zero"] if zero else [])
    if kind == "homodyne":
        value2 = 0.0 if zero else ref.homodyne_dist(phi, m)[0] + case["delta"][0]
        sel = value2 * np.sqrt(hbar / 2)
        op = ["MeasureHomodyne", [phi], [m], {"select": float(sel)}]
        ref.condition_homodyne(phi, value2, m, noise=EPS2)
    else:
        mu_o, _ = ref.heterodyne_dist(m)
        out = np.zeros(2) if zero else mu_o + np.array(case["delta"])
        sel = complex(out[0], out[1]) / 2
        op = ["MeasureHeterodyne", [], [m], {"select": {"re": sel.real, "im": sel.imag}}]
        ref.condition_heterodyne(sel, m)
    try:
        with RngSpy(seed=3) as spy:
            res = sfrun.run("gaussian", n, prior + [op], hbar)
    except Exception as exc:  # pylint: disable=broad-except
        ctx.note(case, True, labels)
        return ctx.crash(exc, "gaussian.%s.select" % kind)
    ctx.note(case, nontrivial=corr > 1e-3, labels=labels)
    got = np.asarray(res.samples)
    if got.shape != (1, 1) or abs(got[0, 0] - sel) > 1e-9 * (1 + abs(sel)):
        return ctx.fail("gaussian.%s.select_returned_value" % kind, "Result.samples = %r for select=%r" % (got.tolist(), sel))
    mu, V, _ = sfrun.moments_of(res.state, "gaussian", hbar)
    mu2, V2 = mu / np.sqrt(hbar / 2), V / (hbar / 2)
    d = max(float(np.max(np.abs(mu2 - ref.mu))), float(np.max(np.abs(V2 - ref.V))))
    if d > _tol(ref.V, 2e-5 if kind == "homodyne" else 1e-8):
        return ctx.fail("gaussian.%s.select_conditional_state" % kind, "state after post-selection on %r differs from the conditional state of the reference by %.3g" % (sel, d))
    return None


def check_gd(ctx, case):
    if case.get("select"):
        return check_gd_select(ctx, case)
    n, hbar, prior, kind, m, phi = case["n"], case["hbar"], case["prior"], case["kind"], case["mode"], case["phi"]
    ref = spec.ref_run(n, prior, 2.0)  # backend works in hbar=2 units internally; the oracle too
    others = [j for j in range(n) if j != m]
    corr = float(np.max(np.abs(ref.V[np.ix_([m, m + n], [j for o in others for j in (o, o + n)])]))) if others else 0.0
    labels = ["backend:gaussian", "type:" + kind] + (["angle_nonzero"] if phi != 0 else [])
    op = ["MeasureHomodyne", [phi], [m], {}] if kind == "homodyne" else ["MeasureHeterodyne", [], [m], {}]
    forced = {}

    def policy(call):
        if call.name == "multivariate_normal":
            mean = np.array(call.arg(0, "mean"), float)
            if kind == "homodyne":
                out = np.array([[mean[0] + case["delta"][0], mean[1]]])
            else:
                out = np.array([mean + np.array(case["delta"])])
            forced["out"] = out[0]
            return out
        return None

    try:
        with RngSpy(seed=3, policy=policy) as spy:
            res = sfrun.run("gaussian", n, prior + [op], hbar)
    except Exception as exc:  # pylint: disable=broad-except
        ctx.note(case, True, labels)
        return ctx.crash(exc, "gaussian." + kind)
    ctx.note(case, nontrivial=corr > 1e-3, labels=labels)
    calls = spy.by_name("multivariate_normal")
    if len(calls) != 1:
        return ctx.fail("gaussian.%s.sampler_calls" % kind, "expected one multivariate_normal call, saw %d" % len(calls))
    mean, cov = np.array(calls[0].arg(0, "mean"), float), np.array(calls[0].arg(1, "cov"), float)
    if kind == "homodyne":
        mu_o, var_o = ref.homodyne_dist(phi, m)
        if abs(mean[0] - mu_o) > _tol(ref.V, 1e-8) or abs(cov[0, 0] - (var_o + EPS2)) > _tol(ref.V, 1e-8) or abs(cov[0, 1]) > 1e-3 + 1e3 * 0:
            pass
        if abs(mean[0] - mu_o) > _tol(ref.V, 1e-8) or abs(cov[0, 0] - (var_o + EPS2)) > _tol(ref.V, 1e-8):
            return ctx.fail("gaussian.homodyne.born_distribution", "sampler got mean %.9g var %.9g for x_phi, Born distribution has %.9g, %.9g (+eps^2)" % (mean[0], cov[0, 0], mu_o, var_o))
        value2 = forced["out"][0]
        ref.condition_homodyne(phi, value2, m, noise=EPS2)
        want_sample = value2 * np.sqrt(hbar / 2)
    else:
        mu_o, cov_o = ref.heterodyne_dist(m)
        if float(np.max(np.abs(mean - mu_o))) > _tol(ref.V, 1e-8) or float(np.max(np.abs(cov - cov_o))) > _tol(ref.V, 1e-8):
            return ctx.fail("gaussian.heterodyne.born_distribution", "sampler mean/cov differ from the Husimi distribution of the reference by %.3g / %.3g" % (float(np.max(np.abs(mean - mu_o))), float(np.max(np.abs(cov - cov_o)))))
        alpha = (forced["out"][0] + 1j * forced["out"][1]) / 2
        ref.condition_heterodyne(alpha, m)
        want_sample = alpha
    got = np.asarray(res.samples)
    if got.shape != (1, 1) or abs(got[0, 0] - want_sample) > 1e-9 * (1 + abs(want_sample)):
        return ctx.fail("gaussian.%s.returned_value" % kind, "Result.samples = %r, the drawn outcome corresponds to %r (hbar=%g)" % (got.tolist(), want_sample, hbar))
    mu, V, _ = sfrun.moments_of(res.state, "gaussian", hbar)
    mu2, V2 = mu / np.sqrt(hbar / 2), V / (hbar / 2)
    d = max(float(np.max(np.abs(mu2 - ref.mu))), float(np.max(np.abs(V2 - ref.V))))
    if d > _tol(ref.V, 2e-5 if kind == "homodyne" else 1e-8):
        return ctx.fail("gaussian.%s.conditional_state" % kind, "post-measurement state differs from the conditional state of the reference by %.3g" % d)
    return None


# ---------------------------------------------------------------------------------------------
# fock photon counting
# ---------------------------------------------------------------------------------------------
@st.composite
def fp_case(draw):
    n = draw(st.integers(1, 3))
    D = draw(st.integers(4, 5))
    rep = draw(st.sampled_from(["pure", "mixed"]))
    k = draw(st.integers(1, n))
    modes = list(draw(st.permutations(list(range(n))))[:k])
    pmax = D - 1 if n < 3 else 3
    case = {"n": n, "cutoff": D, "rep": rep, "prior": draw(ket_terms(n, pmax)), "prior2": draw(ket_terms(n, pmax)) if rep == "mixed" else None,
            "w": draw(gen.fl(0.2, 0.8)), "modes": modes, "pick": draw(st.integers(0, 10 ** 6)), "use_select": draw(st.integers(0, 3)) == 0}
    # register with a gap: one more mode at position `pos` (prepared in |fock>, not entangled), deleted before the measurement, so that the
    # register indices of the measured modes are no longer the backend's positions
    if draw(st.integers(0, 2)) == 0:
        case["spectator"] = {"pos": draw(st.integers(0, n)), "fock": draw(st.integers(0, 2))}
    return case


def check_fp(ctx, case):
    import strawberryfields as sf
    from strawberryfields import ops

    n, D, rep, modes = case["n"], case["cutoff"], case["rep"], case["modes"]
    psi = ket_from_terms(n, D, case["prior"])
    rho0 = fockref.ket_to_dm(psi)
    if rep == "mixed":
        rho0 = case["w"] * rho0 + (1 - case["w"]) * fockref.ket_to_dm(ket_from_terms(n, D, case["prior2"]))
    asc = sorted(modes)
    marg = fockref.probs(fockref.reduce_dm(rho0, n, asc), len(asc))  # axes in ascending mode order
    nz = np.argwhere(marg > 1e-6)
    outcome = tuple(int(x) for x in nz[case["pick"] % len(nz)])  # per ascending mode
    labels = ["backend:fock", "type:fock", "fock_" + rep] + (["unsorted_measured_modes"] if modes != asc else []) + (["select"] if case["use_select"] else [])
    flat_forced = int(np.ravel_multi_index(outcome, marg.shape))

    def policy(call):
        if call.name == "choice":
            return flat_forced
        return None

    sel = [outcome[asc.index(m)] for m in modes] if case["use_select"] else None
    spect = case.get("spectator")
    real = list(range(n)) if spect is None else [j + (j >= spect["pos"]) for j in range(n)]  # register index of the oracle's mode j
    if spect is not None:
        labels.append("measured_after_del")
        if spect["pos"] <= max(modes):
            labels.append("del_shifts_measured_mode")
    prog = sf.Program(n if spect is None else n + 1)
    with prog.context as q:
        if spect is not None:
            ops.Fock(spect["fock"]) | q[spect["pos"]]
        if rep == "pure":
            ops.Ket(psi) | tuple(q[real[j]] for j in range(n))
        else:
            ops.DensityMatrix(rho0) | tuple(q[real[j]] for j in range(n))
        if spect is not None:
            ops.Del | q[spect["pos"]]
        ops.MeasureFock(select=sel) | tuple(q[real[m]] for m in modes)
    try:
        with RngSpy(seed=1, policy=policy) as spy:
            res = sf.Engine("fock", backend_options={"cutoff_dim": D, "pure": rep == "pure"}).run(prog)
    except Exception as exc:  # pylint: disable=broad-except
        ctx.note(case, True, labels)
        return ctx.crash(exc, "fock.MeasureFock")
    others = [j for j in range(n) if j not in modes]
    ctx.note(case, nontrivial=bool(others) and sum(outcome) > 0, labels=labels)
    if not case["use_select"]:
        calls = spy.by_name("choice")
        if len(calls) != 1:
            return ctx.fail("fock.pnr.sampler_calls", "expected one np.random.choice call, saw %d" % len(calls))
        p = np.array(calls[0].kwargs.get("p"), float).reshape(marg.shape)
        if float(np.max(np.abs(p - marg / marg.sum()))) > 1e-7:
            return ctx.fail("fock.pnr.born_distribution", "p handed to the sampler differs from the photon-number distribution of modes %s by %.3g" % (asc, float(np.max(np.abs(p - marg / marg.sum())))))
    got = np.asarray(res.samples)
    if got.shape != (1, len(modes)) or [int(x) for x in got[0]] != list(outcome):
        return ctx.fail("fock.pnr.sample_layout", "Result.samples = %s for measured modes %s; outcomes by ascending mode are %s" % (got.tolist(), modes, list(outcome)))
    for m_ in asc:
        v = res.samples_dict.get(real[m_])
        if v is None or int(np.ravel(v[-1])[0]) != outcome[asc.index(m_)]:
            return ctx.fail("fock.pnr.samples_dict", "samples_dict[%d] = %r, outcome of that mode is %d" % (real[m_], v, outcome[asc.index(m_)]))
    if sorted(res.samples_dict) != [real[m_] for m_ in asc]:
        return ctx.fail("fock.pnr.samples_dict", "samples_dict has keys %s, measured register indices are %s" % (sorted(res.samples_dict), [real[m_] for m_ in asc]))
    # post-measurement state: <k|rho|k> / p (x) vacuum on the measured modes
    idx = []
    for j in range(n):
        if j in modes:
            s = outcome[asc.index(j)]
            idx += [s, s]
        else:
            idx += [slice(None), slice(None)]
    cond = rho0[tuple(idx)]
    pr = float(np.real(fockref.trace(cond, len(others)))) if others else float(np.real(cond))
    vac = np.zeros((D,) * (2 * len(modes)), complex)
    vac[(0,) * (2 * len(modes))] = 1
    from vf.props.c05 import _product

    exp = _product(cond / pr, others, vac, asc, n)
    d = float(np.max(np.abs(fockref.state_dm(res.state) - exp)))
    if d > 1e-8:
        return ctx.fail("fock.pnr.conditional_state", "post-measurement state differs from <k|rho|k>/p (x) vacuum by %.3g (outcome %s on modes %s)" % (d, outcome, asc))
    return None


# ---------------------------------------------------------------------------------------------
# fock homodyne (Gaussian priors so that refsim gives the conditional state)
# ---------------------------------------------------------------------------------------------
@st.composite
def fh_case(draw):
    n = draw(st.integers(1, 2))
    prior = draw(entangling_prior(n, "fock")) if n > 1 else draw(gen.op_list(1, ["Sgate", "Dgate", "Rgate"], "fock", 1, 3))
    prior = [o for o in prior if o[0] not in ("Thermal",)]
    for o in prior:
        if o[0] in ("Sgate", "Squeezed", "S2gate"):
            o[1][0] = float(np.clip(o[1][0], -0.25, 0.25))
        if o[0] == "Dgate":
            o[1][0] = min(o[1][0], 0.4)
    case = {"n": n, "prior": prior, "mode": draw(st.integers(0, n - 1)), "phi": draw(gen.angle()), "bin": draw(st.integers(46000, 54000)),
            "select": draw(st.one_of(st.none(), gen.fl(-0.8, 0.8), st.none(), st.just(0.0)))}
    # mixed-state representation of the simulator; a deleted spectator mode (register index of the measured mode != backend position)
    case["pure"] = draw(st.sampled_from([True, False, True]))
    if (case["pure"] or n == 1) and draw(st.integers(0, 2)) == 0:
        case["spectator"] = {"pos": draw(st.integers(0, n)), "prep": draw(st.sampled_from([["Fock", [1]], ["Coherent", [0.3, 0.5]], ["Vacuum", []]]))}
    return case


def check_fh(ctx, case):
    n, prior, m, phi = case["n"], case["prior"], case["mode"], case["phi"]
    D = 12 if n == 1 else 10
    ref = spec.ref_run(n, prior, 2.0)
    from vf.props.c01 import tail_weight

    if tail_weight(ref, D) > 1e-6:
        ctx.note(case, False, ["truncation_dominated"])
        return None
    labels = ["backend:fock", "type:homodyne"] + (["angle_nonzero"] if phi != 0 else []) + (["select"] if case["select"] is not None else [])
    flags = {"select": case["select"]} if case["select"] is not None else {}
    pure, spect = bool(case.get("pure", True)), case.get("spectator")
    if case["select"] == 0:
        labels.append("select_zero")
    if not pure:
        labels.append("homodyne_mixed_rep")
    if spect is None:
        N, program = n, prior + [["MeasureHomodyne", [phi], [m], flags]]
    else:
        labels.append("measured_after_del")
        if spect["pos"] <= m:
            labels.append("del_shifts_measured_mode")
        emb = [j + (j >= spect["pos"]) for j in range(n)]
        N = n + 1
        program = ([[spect["prep"][0], spect["prep"][1], [spect["pos"]], {}]] + _embed_ops(prior, emb) + [["Del", [], [spect["pos"]], {}]]
                   + [["MeasureHomodyne", [phi], [emb[m]], flags]])
    grid = np.linspace(-10, 10, 100000)

    def policy(call):
        if call.name == "multinomial":
            out = np.zeros(len(call.arg(1, "pvals")), int)
            out[case["bin"]] = 1
            return out
        return None

    try:
        with RngSpy(seed=2, policy=policy) as spy:
            res = sfrun.run("fock", N, program, 2.0, D, pure)
    except Exception as exc:  # pylint: disable=broad-except
        ctx.note(case, True, labels)
        return ctx.crash(exc, "fock.MeasureHomodyne")
    ctx.note(case, nontrivial=n > 1, labels=labels)
    mu_o, var_o = ref.homodyne_dist(phi, m)
    if case["select"] is None:
        calls = spy.by_name("multinomial")
        if len(calls) != 1:
            return ctx.fail("fock.homodyne.sampler_calls", "expected one multinomial call, saw %d" % len(calls))
        p = np.array(calls[0].arg(1, "pvals"), float)
        mean = float(np.sum(p * grid))
        var = float(np.sum(p * grid ** 2) - mean ** 2)
        if abs(mean - mu_o) > 2e-3 or abs(var - var_o) > 2e-3 * (1 + var_o):
            return ctx.fail("fock.homodyne.born_distribution", "sampled x_phi distribution has mean %.5f var %.5f, Born distribution %.5f, %.5f" % (mean, var, mu_o, var_o))
        value = float(grid[case["bin"]])
    else:
        value = float(case["select"])
    got = np.asarray(res.samples)
    if got.shape != (1, 1) or abs(got[0, 0] - value) > 1e-3:
        return ctx.fail("fock.homodyne.returned_value", "Result.samples = %r, drawn outcome is %r" % (got.tolist(), value))
    ref.condition_homodyne(phi, value, m)
    rho = fockref.state_dm(res.state)
    mu, V = fockref.moments(rho, n, 2.0)
    d = max(float(np.max(np.abs(mu - ref.mu))), float(np.max(np.abs(V - ref.V))))
    if d > 5e-3 * (1 + float(np.max(np.abs(ref.V)))):
        return ctx.fail("fock.homodyne.conditional_state", "post-measurement moments differ from the conditional state of the reference by %.3g (outcome %.4f)" % (d, value))
    return None


# ---------------------------------------------------------------------------------------------
# bosonic rejection sampler
# ---------------------------------------------------------------------------------------------
@st.composite
def br_case(draw):
    n = draw(st.integers(1, 2))
    preps = []
    for j in range(n):
        kind = draw(st.sampled_from(["Catstate", "Catstate", "Fock", "Squeezed", "Coherent"]))
        if kind == "Catstate":
            preps.append(["Catstate", [draw(gen.fl(0.5, 1.5)), draw(st.sampled_from([0.0, 1.0, 0.5]))], [j], {}])
        elif kind == "Fock":
            preps.append(["Fock", [1], [j], {}])
        else:
            preps.append([kind, draw(gen.op_params(kind, "ps")), [j], {}])
    ent = [["BSgate", [draw(gen.fl(0.3, 1.2)), draw(gen.angle())], [0, 1], {}]] if n == 2 and draw(st.booleans()) else []
    kind = draw(st.sampled_from(["homodyne", "heterodyne"]))
    return {"n": n, "prior": preps + ent, "kind": kind, "mode": draw(st.integers(0, n - 1)), "phi": draw(gen.angle()) if kind == "homodyne" else 0.0,
            "delta": [draw(gen.fl(-1.0, 1.0)), draw(gen.fl(-1.0, 1.0))], "peak": draw(st.integers(0, 50)), "side": draw(st.sampled_from(["accept", "reject"]))}


def _born_density(w, mus, covs, x):
    """sum_k w_k N(x; mu_k, cov_k) with complex means (analytic continuation), real part"""
    tot = 0.0 + 0.0j
    for wk, mk, ck in zip(w, mus, covs):
        d = x - mk
        tot += wk * np.exp(-0.5 * d @ np.linalg.inv(ck) @ d) / np.sqrt(np.linalg.det(2 * np.pi * ck))
    return tot


def check_br(ctx, case):
    n, prior, kind, m, phi = case["n"], case["prior"], case["kind"], case["mode"], case["phi"]
    labels = ["backend:bosonic", "type:" + kind] + (["angle_nonzero"] if phi != 0 else [])
    try:
        pre = sfrun.run("bosonic", n, prior + ([["Rgate", [-phi], [m], {}]] if kind == "homodyne" else []), 2.0).state
    except sfrun.Rejected:
        ctx.note(case, False, ["rejected:bosonic"])
        return None
    except Exception as exc:  # pylint: disable=broad-except
        ctx.note(case, True, labels)
        return ctx.crash(exc, "bosonic.prior")
    w = np.asarray(pre.weights())
    qi = [2 * m, 2 * m + 1]
    mus = np.asarray(pre.means())[:, qi]
    covs = np.asarray(pre.covs())
    covs = np.broadcast_to(covs, (len(w),) + covs.shape[1:])[:, qi][:, :, qi].real
    covmat = np.diag([EPS2, 1 / EPS2]) if kind == "homodyne" else np.eye(2)
    covs = covs + covmat
    if len(w) > 1:
        labels.append("multi_peak")
    state = {"stage": 0, "x": None, "ratio": None, "decision": None, "second_choice": False}

    def policy(call):
        if call.name == "multivariate_normal" and state["stage"] == 0:
            mean = np.array(call.arg(0, "mean"), float)
            x = mean + np.array(case["delta"]) * (np.array([1.0, 0.0]) if kind == "homodyne" else 1.0)
            state["x"] = x
            state["stage"] = 1
            return x
        if call.name == "random" and state["stage"] == 1:
            f = np.real(_born_density(w, mus, covs, state["x"]))
            # upper bound used by the documented scheme: |w_k| (times the imaginary-mean prefactor) Gaussians with real means,
            # over the terms with non-negative weight or complex mean
            ub = 0.0
            for wk, mk, ck in zip(w, mus, covs):
                if np.angle(wk) != np.pi or np.any(mk.imag != 0):
                    pref = np.exp(0.5 * mk.imag @ np.linalg.inv(ck) @ mk.imag) if np.any(mk.imag != 0) else 1.0
                    d = state["x"] - mk.real
                    ub += abs(wk) * pref * np.exp(-0.5 * d @ np.linalg.inv(ck) @ d) / np.sqrt(np.linalg.det(2 * np.pi * ck))
            ratio = f / ub if ub > 0 else 0.0
            state["ratio"] = ratio
            state["stage"] = 2
            if ratio <= 1e-9 or ratio >= 1 - 1e-9:
                state["decision"] = "skip"
                return np.array([0.0])  # accept whatever
            state["decision"] = case["side"]
            u = ratio * (1 - 1e-6) if case["side"] == "accept" else min(ratio * (1 + 1e-6), 1.0)
            return np.array([u])
        if call.name == "random" and state["stage"] >= 2:
            return np.array([0.0])  # accept later proposals immediately
        if call.name == "choice" and state["stage"] == 2:
            state["second_choice"] = True
        return None

    op = ["MeasureHomodyne", [phi], [m], {}] if kind == "homodyne" else ["MeasureHeterodyne", [], [m], {}]
    try:
        with RngSpy(seed=case["peak"], policy=policy) as spy:
            sfrun.run("bosonic", n, prior + [op], 2.0)
    except Exception as exc:  # pylint: disable=broad-except
        ctx.note(case, True, labels)
        return ctx.crash(exc, "bosonic." + kind)
    ctx.note(case, nontrivial=len(w) > 1, labels=labels)
    ch = spy.by_name("choice")
    mv = spy.by_name("multivariate_normal")
    if not ch or not mv:
        return ctx.fail("bosonic.%s.sampler_calls" % kind, "no proposal was drawn")
    # proposal: the peak index must come from the terms of the state, its mean/cov must be that term's
    p = np.array(ch[0].kwargs.get("p"), float)
    cand = np.array(ch[0].arg(0, "a"))
    if abs(p.sum() - 1) > 1e-9 or np.any(p < -1e-12) or len(p) != len(cand):
        return ctx.fail("bosonic.%s.proposal_weights" % kind, "proposal probabilities %s over %s" % (p, cand))
    k = int(np.ravel(ch[0].result)[0])
    mean, cov = np.array(mv[0].arg(0, "mean"), float), np.array(mv[0].arg(1, "cov"), float)
    if float(np.max(np.abs(mean - mus[k].real))) > 1e-7 * (1 + float(np.max(np.abs(mus)))) or float(np.max(np.abs(cov - covs[k]))) > 1e-7 * float(np.max(np.abs(covs[k]))):
        return ctx.fail("bosonic.%s.proposal_peak" % kind, "proposal drawn from mean %s cov diag %s, peak %d of the pre-measurement state has mean %s cov diag %s" % (mean, np.diag(cov), k, mus[k].real, np.diag(covs[k])))
    if state["decision"] == "accept" and state["second_choice"]:
        return ctx.fail("bosonic.%s.acceptance_threshold" % kind, "a proposal with u just below f(x)/g(x) = %.6g was rejected: the sampler does not sample the Born density" % state["ratio"])
    if state["decision"] == "reject" and not state["second_choice"]:
        return ctx.fail("bosonic.%s.acceptance_threshold" % kind, "a proposal with u just above f(x)/g(x) = %.6g was accepted: the sampler does not sample the Born density" % state["ratio"])
    if state["ratio"] is not None and state["ratio"] > 1 + 1e-6:
        return ctx.fail("bosonic.%s.upper_bound_violated" % kind, "Born density exceeds the documented upper-bounding function at the proposed point (ratio %.6g)" % state["ratio"])
    return None


# ---------------------------------------------------------------------------------------------
# gaussian MeasureFock / MeasureThreshold: arguments handed to thewalrus
# ---------------------------------------------------------------------------------------------
@st.composite
def gp_case(draw):
    n = draw(st.integers(1, 4))
    prior = draw(entangling_prior(n)) if n > 1 else draw(gen.op_list(1, ["Sgate", "Dgate", "Thermal"], "ps", 1, 3))
    k = draw(st.integers(1, n))
    modes = list(draw(st.permutations(list(range(n))))[:k])
    kind = draw(st.sampled_from(["fock", "threshold"]))
    case = {"n": n, "prior": prior, "modes": modes, "kind": kind, "shots": draw(st.sampled_from([1, 1, 3])),
            "hbar": draw(st.sampled_from([2.0, 1.0, 3.3]))}
    # where the number of shots comes from: engine keyword, the program's default run options, both (the keyword wins), compile(shots=..)
    case["shots_via"] = draw(st.sampled_from(["kwarg", "run_options", "both", "compile", "kwarg"]))
    # register with unused modes, measured indices >= 10 next to one-digit ones
    if n >= 2 and draw(st.integers(0, 2)) == 0:
        second = modes[1] if k >= 2 else [m for m in range(n) if m != modes[0]][0]
        case["N"], case["embed"] = draw(wide_embedding(n, modes[0], second))
    # post-selection is not available for these measurements on the gaussian backend: the run must be refused, never answered with
    # an outcome other than the selected one
    # (finding F61, fixed: MeasureThreshold(select=..) with shots == 1 was neither refused nor honoured)
    if draw(st.integers(0, 5)) == 0:
        case["select"] = True
    return case


def check_gp(ctx, case):
    import strawberryfields.backends.gaussianbackend.backend as gb

    n, prior, modes, kind, shots, hbar = case["n"], case["prior"], case["modes"], case["kind"], case["shots"], case["hbar"]
    N, embed, via, select = case.get("N", n), case.get("embed") or list(range(n)), case.get("shots_via", "kwarg"), bool(case.get("select"))
    real = [embed[m] for m in modes]
    ref = spec.ref_run(n, prior, 2.0)
    labels = ["backend:gaussian", "type:" + kind] + (["unsorted_measured_modes"] if real != sorted(real) else []) + (["multi_shot"] if shots > 1 else [])
    if [str(x) for x in sorted(real)] != sorted(str(x) for x in real):
        labels.append("two_digit_mode_index")
    if N > n:
        labels.append("register_with_unused_modes")
    if via != "kwarg":
        labels.append("shots_from_" + via)
    if select:
        labels.append("select_on_unsupported_measurement")
    rec = {}
    tag = lambda s, j: 10 * s + j  # noqa: E731

    def fake_haf(cov, samples, mean=None, **kw):
        rec["cov"], rec["mean"] = np.array(cov), None if mean is None else np.array(mean)
        return np.array([[tag(s, j) for j in range(len(cov) // 2)] for s in range(samples)])

    def fake_tor(mu=None, cov=None, samples=1, **kw):
        rec["cov"], rec["mean"] = np.array(cov), np.array(mu)
        return np.array([[tag(s, j) for j in range(len(cov) // 2)] for s in range(samples)])

    o1, o2 = gb.hafnian_sample_state, gb.torontonian_sample_state
    gb.hafnian_sample_state, gb.torontonian_sample_state = fake_haf, fake_tor
    selvals = [7 + j for j in range(len(modes))]  # values the fake samplers never return
    try:
        op = ["MeasureFock" if kind == "fock" else "MeasureThreshold", [], real, {"select": None} if not select else {"kw": {"select": selvals}}]
        with sfrun.HbarCtx(hbar):
            prog = spec.build_program(N, _embed_ops(prior, embed) + [op])
            run_kwargs = {"shots": shots} if via in ("kwarg", "both") else {}
            if via == "run_options":
                prog.run_options = {"shots": shots}
            elif via == "both":
                prog.run_options = {"shots": shots + 2}
            elif via == "compile":
                prog = prog.compile(compiler="gaussian", shots=shots)
        res = sfrun.run("gaussian", N, None, hbar, prog=prog, run_kwargs=run_kwargs)
    except sfrun.Rejected:
        ctx.note(case, False, labels + ["rejected:gaussian"])
        return None
    except Exception as exc:  # pylint: disable=broad-except
        ctx.note(case, True, labels)
        return ctx.crash(exc, "gaussian.Measure" + kind)
    finally:
        gb.hafnian_sample_state, gb.torontonian_sample_state = o1, o2
    ctx.note(case, nontrivial=n > len(modes), labels=labels)
    got = np.asarray(res.samples)
    if select:
        if got.shape != (1, len(modes)) or [int(x) for x in got[0]] != [selvals[real.index(mm)] for mm in sorted(real)]:
            return ctx.fail("gaussian.%s.select_ignored" % kind, "Measure%s(select=%s) on modes %s was neither refused nor honoured: Result.samples = %s" % (kind, selvals, real, got.tolist()))
        return None
    mu_o, V_o = ref.reduced(modes)
    if float(np.max(np.abs(rec["cov"] - V_o))) > _tol(V_o, 1e-8):
        return ctx.fail("gaussian.%s.born_distribution" % kind, "covariance handed to thewalrus differs from the reduced state of modes %s by %.3g" % (real, float(np.max(np.abs(rec["cov"] - V_o)))))
    if rec["mean"] is None:
        if float(np.max(np.abs(ref.mu))) > 1e-7:
            return ctx.fail("gaussian.%s.mean_dropped" % kind, "displaced state sampled without its mean")
    elif float(np.max(np.abs(rec["mean"] - mu_o))) > _tol(V_o, 1e-8):
        return ctx.fail("gaussian.%s.born_distribution" % kind, "mean handed to thewalrus differs from the reduced state of modes %s by %.3g" % (real, float(np.max(np.abs(rec["mean"] - mu_o)))))
    if got.shape != (shots, len(modes)):
        return ctx.fail("gaussian.%s.sample_shape" % kind, "Result.samples has shape %s for %d shots (given by %s) of %d modes" % (got.shape, shots, via, len(modes)))
    want = np.array([[tag(s, real.index(mm)) for mm in sorted(real)] for s in range(shots)])
    if not np.array_equal(got, want):
        return ctx.fail("gaussian.%s.sample_layout" % kind, "Result.samples %s, expected columns in ascending mode order %s (measured %s)" % (got.tolist(), want.tolist(), real))
    for j, mm in enumerate(real):
        dv = res.samples_dict.get(mm)
        if dv is None or len(dv) != 1 or [int(x) for x in np.ravel(dv[0])] != [tag(s, j) for s in range(shots)]:
            return ctx.fail("gaussian.%s.samples_dict" % kind, "samples_dict[%d] = %r, the sampler returned %s for that mode" % (mm, dv, [tag(s, j) for s in range(shots)]))
    return None


# ---------------------------------------------------------------------------------------------
# layout of results with several measurements
# ---------------------------------------------------------------------------------------------
@st.composite
def wide_embedding(draw, n, first, second):
    """register size N in 11..13 and n distinct positions for the circuit's modes 0..n-1; the circuit modes ``first`` and ``second``
    (both measured) get one position >= 10 and one in 2..9, so that the measured indices sort differently as numbers and as text"""
    N = draw(st.integers(11, 13))
    hi, lo = draw(st.integers(10, N - 1)), draw(st.integers(2, 9))
    rest = [p for p in draw(st.permutations(list(range(N)))) if p not in (hi, lo)]
    emb = [None] * n
    emb[first], emb[second] = (hi, lo) if draw(st.booleans()) else (lo, hi)
    it = iter(rest)
    return N, [e if e is not None else next(it) for e in emb]


def _embed_ops(oplist, embed):
    return [[o[0], o[1], [embed[m] for m in o[2]]] + list(o[3:]) for o in oplist]


@st.composite
def lo_case(draw):
    n = draw(st.integers(2, 4))
    prior = draw(entangling_prior(n))
    k = draw(st.integers(2, n))
    modes = list(draw(st.permutations(list(range(n))))[:k])
    backend = draw(st.sampled_from(["gaussian", "bosonic"]))
    # several shots (bosonic sampler only; the engine refuses post-selection with shots > 1, the gaussian backend shots > 1)
    shots = draw(st.sampled_from([1, 3, 2])) if backend == "bosonic" else 1
    kind = st.sampled_from(["homodyne", "heterodyne", "select"] if shots == 1 else ["homodyne", "heterodyne"])
    kinds = [draw(kind) for _ in modes]
    case = {"n": n, "prior": prior, "modes": modes, "kinds": kinds, "backend": backend, "hbar": draw(st.sampled_from([2.0, 1.0]))}
    if shots > 1:
        case["shots"] = shots
    # wide register with unused modes: measured indices >= 10 next to one-digit ones
    if draw(st.integers(0, 2)) == 0:
        case["N"], case["embed"] = draw(wide_embedding(n, modes[0], modes[1]))
    # the same mode measured again later in the program (it was reset to vacuum by the first measurement)
    if draw(st.integers(0, 2)) == 0:
        case["again"] = [[draw(st.integers(0, k - 1)), draw(kind)] for _ in range(draw(st.integers(1, 2)))]
    # the module-level instances MeasureX / MeasureHD shared by all commands instead of fresh operation objects
    case["shortcut"] = draw(st.integers(0, 3)) == 0
    return case


def check_lo(ctx, case):
    import strawberryfields as sf
    from strawberryfields import ops

    n, prior, modes, kinds, be, hbar = case["n"], case["prior"], case["modes"], case["kinds"], case["backend"], case["hbar"]
    N, embed = case.get("N", n), case.get("embed") or list(range(n))
    shots, shortcut = case.get("shots", 1), bool(case.get("shortcut"))
    events = [[embed[mm], kd] for mm, kd in zip(modes, kinds)] + [[embed[modes[pos]], kd] for pos, kd in case.get("again", [])]
    real = [mm for mm, _ in events]
    asc = sorted(set(real))
    labels = ["backend:" + be, "layout"] + (["unsorted_measured_modes"] if real[:len(modes)] != sorted(real[:len(modes)]) else [])
    if [str(x) for x in asc] != sorted(str(x) for x in asc):
        labels.append("two_digit_mode_index")
    if N > n:
        labels.append("register_with_unused_modes")
    if len(real) > len(asc):
        labels.append("remeasured_mode")
    if shots > 1:
        labels.append("layout_multi_shot")
    if shortcut:
        labels.append("shared_measurement_instance")
    s = np.sqrt(hbar / 2)
    seen = {}
    seq = []  # sampled measurements in program order: (mode, kind, occurrence)
    expect = {mm: [] for mm in asc}  # per mode: one array (over shots) per measurement of that mode
    for ev in events:
        mm, kd = ev
        occ = seen.get(mm, 0)
        seen[mm] = occ + 1
        ev.append(occ)
        if kd == "select":
            expect[mm].append(np.array([(100 + mm) * 0.01 + 0.15 * occ]))
        else:
            seq.append((mm, kd, occ))
            tag = np.array([(200 + mm) * 0.01 + 0.15 * occ + 0.003 * sh for sh in range(shots)])  # x = 2 * tag in hbar=2 units
            expect[mm].append(2 * tag * s if kd == "homodyne" else tag + 1j * (0.25 * tag + 0.1))
    order = {"i": 0}

    def policy(call):
        if call.name == "multivariate_normal":
            mean = np.array(call.arg(0, "mean"), float)
            i = min(order["i"], len(seq) * shots - 1)
            mm, kd, occ = seq[i // shots]
            order["i"] += 1
            tag = (200 + mm) * 0.01 + 0.15 * occ + 0.003 * (i % shots)
            out = mean.copy()
            out[0] = 2 * tag
            if kd == "heterodyne":
                out[1] = 2 * (0.25 * tag + 0.1)
            return out.reshape(1, -1) if be == "gaussian" else out
        if call.name == "random":
            return np.array([0.0])
        return None

    with sfrun.HbarCtx(hbar):
        prog = sf.Program(N)
        with prog.context as q:
            for o in _embed_ops(prior, embed):
                spec.make_op(ops, o[0], o[1], o[3] if len(o) > 3 else {}) | tuple(q[m] for m in o[2])
            for mm, kd, occ in events:
                if kd == "select":
                    ops.MeasureHomodyne(0.3, select=(100 + mm) * 0.01 + 0.15 * occ) | q[mm]
                elif kd == "homodyne":
                    (ops.MeasureX if shortcut else ops.MeasureHomodyne(0.0)) | q[mm]
                else:
                    (ops.MeasureHD if shortcut else ops.MeasureHeterodyne()) | q[mm]
        try:
            with RngSpy(seed=4, policy=policy):
                res = sf.Engine(be).run(prog, **({"shots": shots} if shots > 1 else {}))
        except Exception as exc:  # pylint: disable=broad-except
            ctx.note(case, True, labels)
            return ctx.crash(exc, be + ".layout")
    ctx.note(case, nontrivial=len(labels) > 2, labels=labels)
    got = np.asarray(res.samples)
    if got.shape != (shots, len(asc)):
        return ctx.fail("layout.sample_shape.%s" % be, "Result.samples has shape %s for %d shots of %d measured modes" % (got.shape, shots, len(asc)))

    def differs(a, b):
        a, b = np.ravel(np.asarray(a)), np.ravel(np.asarray(b))
        return a.shape != b.shape or bool(np.any(np.abs(a - b) > 1e-9 * (1 + np.abs(b))))

    for col, mm in enumerate(asc):
        val = got[:, col]
        if differs(val, expect[mm][-1]):
            return ctx.fail("layout.samples_column.%s" % be, "column %d of Result.samples should hold the (last) outcome of mode %d, %s: got %s, samples %s, measurements in program order %s"
                            % (col, mm, np.round(expect[mm][-1], 6).tolist(), val.tolist(), got.tolist(), [e[:2] for e in events]))
        dv = res.samples_dict.get(mm)
        if dv is None or len(dv) != len(expect[mm]) or any(differs(a, b) for a, b in zip(dv, expect[mm])):
            return ctx.fail("layout.samples_dict.%s" % be, "samples_dict[%d] = %r but the outcomes of that mode are, in program order, %s" % (mm, dv, [np.round(e, 6).tolist() for e in expect[mm]]))
        rv = prog.register[mm].val
        if rv is None or differs(rv, expect[mm][-1]):
            return ctx.fail("layout.regref_val.%s" % be, "RegRef %d holds %r but the last outcome of that mode is %s" % (mm, rv, np.round(expect[mm][-1], 6).tolist()))
    return None


# ---------------------------------------------------------------------------------------------
# bosonic conditional states: threshold detection (click / no click), post-selected homodyne and heterodyne
# ---------------------------------------------------------------------------------------------
@st.composite
def bc_case(draw):
    n = draw(st.sampled_from([2, 3, 1, 2]))
    preps = []
    nong = 0
    for j in range(n):
        kind = draw(st.sampled_from(["Catstate", "Fock", "Squeezed", "Coherent", "DisplacedSqueezed", "Squeezed"]))
        if kind in ("Catstate", "Fock") and nong >= 2:
            kind = "DisplacedSqueezed"
        if kind == "Catstate":
            nong += 1
            preps.append(["Catstate", [draw(gen.fl(0.5, 1.3)), draw(st.sampled_from([0.0, 1.0, 0.5]))], [j], {}])
        elif kind == "Fock":
            nong += 1
            preps.append(["Fock", [1], [j], {}])
        else:
            preps.append([kind, draw(gen.op_params(kind, "ps")), [j], {}])
    gates = draw(gen.op_list(n, ["BSgate", "BSgate", "S2gate", "Dgate", "Rgate", "Sgate"], "ps", 1, 4))
    kind = draw(st.sampled_from(["homodyne", "threshold", "heterodyne", "threshold"]))
    k = draw(st.integers(1, n)) if kind == "threshold" else 1  # k == n: every mode of the register is measured
    modes = list(draw(st.permutations(list(range(n))))[:k])
    case = {"n": n, "prior": preps + gates, "kind": kind, "modes": modes, "outcomes": [draw(st.integers(0, 1)) for _ in modes], "phi": draw(gen.angle()),
            "delta": [draw(gen.fl(-1.0, 1.0)), draw(gen.fl(-1.0, 1.0))], "points": [[draw(gen.fl(-2.0, 2.0)) for _ in range(2 * n)] for _ in range(3)]}
    if kind != "threshold":
        # how the outcome is fixed: post-selected (select = Born mean + delta, or exactly 0), or drawn by the rejection sampler (proposal forced
        # to its peak mean + delta and accepted)
        case["how"] = draw(st.sampled_from(["select", "sampled", "select_zero", "sampled"]))
    return case


def _mix_condition(w, mus, covs, m, M, v, h=2.0):
    """project mode m of the mixture sum_i w_i G(mu_i, V_i) (xpxp order, complex means allowed) on the Gaussian POVM element with
    covariance M centred at v; the mode is left in vacuum.  Returns (unnormalised weights, means, covs)."""
    K, d = mus.shape
    B = [2 * m, 2 * m + 1]
    A = [i for i in range(d) if i not in B]
    w2 = np.zeros(K, complex)
    mus2 = np.zeros((K, d), complex)
    covs2 = np.zeros((K, d, d))
    for i in range(K):
        VB = covs[i][np.ix_(B, B)] + M
        Si = np.linalg.inv(VB)
        C = covs[i][np.ix_(A, B)]
        G = C @ Si
        dv = np.asarray(v, complex) - mus[i][B]
        w2[i] = w[i] * np.exp(-0.5 * dv @ Si @ dv) / np.sqrt(np.linalg.det(2 * np.pi * VB))
        mus2[i][A] = mus[i][A] + G @ dv
        covs2[i][np.ix_(A, A)] = covs[i][np.ix_(A, A)] - G @ C.T
        covs2[i][np.ix_(B, B)] = h / 2 * np.eye(2)
    return w2, mus2, covs2


def _mix_trace_to_vacuum(w, mus, covs, m, h=2.0):
    d = mus.shape[1]
    B = [2 * m, 2 * m + 1]
    A = [i for i in range(d) if i not in B]
    mus2 = mus.copy()
    mus2[:, B] = 0
    covs2 = np.zeros_like(covs)
    for i in range(len(w)):
        covs2[i][np.ix_(A, A)] = covs[i][np.ix_(A, A)]
        covs2[i][np.ix_(B, B)] = h / 2 * np.eye(2)
    return np.array(w, complex), mus2, covs2


def _mix_wigner(w, mus, covs, x):
    tot = 0j
    for wk, mk, ck in zip(w, mus, covs):
        dv = x - mk
        tot += wk * np.exp(-0.5 * dv @ np.linalg.inv(ck) @ dv) / np.sqrt(np.linalg.det(2 * np.pi * ck))
    return tot


def _mix_moments(w, mus, covs):
    mean = np.einsum("i,ij->j", w, mus)
    second = np.einsum("i,ijk->jk", w, covs + np.einsum("ij,ik->ijk", mus, mus))
    return np.real(mean), np.real(second - np.outer(mean, mean))


def _mix_of(state):
    w = np.asarray(state.weights(), complex)
    mus = np.asarray(state.means(), complex)
    covs = np.asarray(state.covs())
    covs = np.array(np.broadcast_to(covs, (len(w),) + covs.shape[1:]).real)
    return w, mus, covs


def check_bc(ctx, case):
    import itertools

    n, prior, kind, modes, phi = case["n"], case["prior"], case["kind"], case["modes"], case["phi"]
    h = 2.0
    labels = ["backend:bosonic", "type:" + kind, "bosonic_conditional"] + (["every_mode_measured"] if len(modes) == n else [])
    try:
        pre = sfrun.run("bosonic", n, prior, h).state
    except sfrun.Rejected:
        ctx.note(case, False, ["rejected:bosonic"])
        return None
    except Exception as exc:  # pylint: disable=broad-except
        ctx.note(case, True, labels)
        return ctx.crash(exc, "bosonic.prior")
    w0, mus0, covs0 = _mix_of(pre)
    if len(w0) > 1:
        labels.append("multi_peak")
    scale = float(np.sum(np.abs(w0)))
    vac = h / 2 * np.eye(2)
    seen = []

    if kind == "threshold":
        def policy(call):
            if call.name == "choice":
                pp = np.array(call.kwargs.get("p"), float)
                want = case["outcomes"][min(len(seen), len(case["outcomes"]) - 1)]
                out = want if pp[want] > 1e-3 else 1 - want
                seen.append((pp, out))
                return out
            return None

        op = ["MeasureThreshold", [], modes, {}]
    else:
        how = case.get("how", "select")
        labels.append("dyne_" + how)
        m = modes[0]
        mean0, _ = _mix_moments(w0, mus0, covs0)
        forced = {}

        def policy(call):
            # only consulted when the outcome is sampled: first proposal = its peak mean + delta, accepted at once
            if call.name == "multivariate_normal" and "v" not in forced:
                forced["v"] = np.array(call.arg(0, "mean"), float) + np.array(case["delta"]) * (np.array([1.0, 0.0]) if kind == "homodyne" else 1.0)
                return forced["v"]
            if call.name == "random":
                return np.array([0.0])
            return None

        if kind == "homodyne":
            # select = Born mean of x_phi + delta
            xm = np.cos(phi) * mean0[2 * m] + np.sin(phi) * mean0[2 * m + 1]
            sel = 0.0 if how == "select_zero" else float(xm + case["delta"][0])
            op = ["MeasureHomodyne", [phi], [m], {} if how == "sampled" else {"kw": {"select": sel}}]
        else:
            sel = 0j if how == "select_zero" else complex(mean0[2 * m] + case["delta"][0], mean0[2 * m + 1] + case["delta"][1]) / 2
            op = ["MeasureHeterodyne", [], [m], {} if how == "sampled" else {"kw": {"select": sel}}]
    try:
        with RngSpy(seed=5, policy=policy) as spy:
            res = sfrun.run("bosonic", n, prior + [op], h)
    except Exception as exc:  # pylint: disable=broad-except
        ctx.note(case, True, labels)
        return ctx.crash(exc, "bosonic." + kind)
    # ---- oracle
    if kind == "threshold":
        if len(seen) != len(modes):
            ctx.note(case, True, labels)
            return ctx.fail("bosonic.threshold.sampler_calls", "expected %d np.random.choice calls for modes %s, saw %d" % (len(modes), modes, len(seen)))
        match = None
        for order in itertools.permutations(range(len(modes))):
            w, mus, covs = w0.copy(), mus0.copy(), covs0.copy()
            ok = True
            for j, pos in enumerate(order):
                m = modes[pos]
                wc, musc, covsc = _mix_condition(w, mus, covs, m, vac, [0.0, 0.0], h)
                wc = wc * 2 * np.pi * h  # <0|rho|0> of each term
                P0 = float(np.real(np.sum(wc)))
                if abs(seen[j][0][0] - P0) > 1e-7 * max(1.0, scale * 1e-8) + 1e-7:
                    ok = False
                    break
                if seen[j][1] == 0:
                    w, mus, covs = wc / P0, musc, covsc
                else:
                    wt, must, covst = _mix_trace_to_vacuum(w, mus, covs, m, h)
                    w = np.concatenate([wt, -wc]) / (1 - P0)
                    mus = np.concatenate([must, musc])
                    covs = np.concatenate([covst, covsc])
            if ok:
                match = ([modes[pos] for pos in order], w, mus, covs)
                break
        outs = [o for _, o in seen]
        if any(outs):
            labels.append("threshold_click")
        if not all(outs):
            labels.append("threshold_no_click")
        ctx.note(case, nontrivial=any(outs), labels=labels)
        if match is None:
            return ctx.fail("bosonic.threshold.born_distribution", "no order of the measured modes %s reproduces the vacuum probabilities handed to the sampler (%s)" % (modes, [float(pp[0]) for pp, _ in seen]))
        order_modes, w, mus, covs = match
        per_mode = dict(zip(order_modes, outs))
        for m_ in modes:
            v = res.samples_dict.get(m_)
            if v is None or int(np.ravel(v[-1])[0]) != per_mode[m_]:
                return ctx.fail("bosonic.threshold.samples_dict", "samples_dict[%d] = %r, the outcome drawn for that mode is %d" % (m_, v, per_mode[m_]))
    else:
        ctx.note(case, nontrivial=True, labels=labels + (["select"] if how != "sampled" else []) + (["angle_nonzero"] if kind == "homodyne" and phi != 0 else []))
        m = modes[0]
        got = np.asarray(res.samples)
        if how == "sampled":
            if "v" not in forced:
                return ctx.fail("bosonic.%s.sampler_calls" % kind, "no proposal was drawn")
            # the general-dyne POVM element of the drawn phase-space point (x, p); hbar = 2: x_phi = x, alpha = (x + ip) / 2
            point = forced["v"]
            value = float(point[0]) if kind == "homodyne" else complex(point[0], point[1]) / 2
        else:
            point = [sel, 0.0] if kind == "homodyne" else [np.sqrt(2 * h) * sel.real, np.sqrt(2 * h) * sel.imag]
            value = sel
        if got.shape != (1, 1) or abs(got[0, 0] - value) > 1e-9 * (1 + abs(value)):
            return ctx.fail("bosonic.%s.returned_value" % kind, "Result.samples = %r, the %s outcome is %r" % (got.tolist(), "drawn" if how == "sampled" else "selected", value))
        if kind == "homodyne":
            # rotate the frame by -phi (x_phi -> x), project on x = sel with the documented finite squeezing, rotate back is not needed:
            # the measured mode ends in vacuum and the other modes are not touched by the local rotation
            c, s_ = np.cos(phi), np.sin(phi)
            R = np.eye(2 * n)
            R[np.ix_([2 * m, 2 * m + 1], [2 * m, 2 * m + 1])] = np.array([[c, s_], [-s_, c]])
            mus = mus0 @ R.T
            covs = np.array([R @ cv @ R.T for cv in covs0])
            M = h / 2 * np.diag([EPS2, 1 / EPS2])
            w, mus, covs = _mix_condition(w0, mus, covs, m, M, point, h)
        else:
            w, mus, covs = _mix_condition(w0, mus0, covs0, m, vac, point, h)
        tot = np.sum(w)
        if abs(tot) < 1e-12 * scale:
            return None
        w = w / tot
    # ---- compare the post-measurement state
    wb, musb, covsb = _mix_of(res.state)
    if abs(np.sum(wb) - 1) > 1e-7 * max(1.0, 1e-8 * float(np.sum(np.abs(wb)))) + 1e-9:
        return ctx.fail("bosonic.%s.weights" % kind, "weights sum to %r after the measurement" % complex(np.sum(wb)))
    tolm = (2e-5 if kind == "homodyne" else 1e-7) * (1 + float(np.max(np.abs(covs)))) * max(1.0, 1e-6 * float(np.sum(np.abs(w))))
    m1, V1 = _mix_moments(wb, musb, covsb)
    m2, V2 = _mix_moments(w, mus, covs)
    d = max(float(np.max(np.abs(m1 - m2))), float(np.max(np.abs(V1 - V2))))
    if d > tolm:
        return ctx.fail("bosonic.%s.conditional_state" % kind, "means / covariance after %s on %s differ from the conditional state of the reported outcome by %.3g" % (kind, modes, d))
    for x in case["points"] + [[0.0] * (2 * n)]:
        x = np.array(x)
        a, b = _mix_wigner(wb, musb, covsb, x), _mix_wigner(w, mus, covs, x)
        peak = float(np.sum(np.abs(w))) / (2 * np.pi * h / 2) ** n
        if abs(a - b) > (2e-5 if kind == "homodyne" else 1e-7) * max(1.0, peak):
            return ctx.fail("bosonic.%s.conditional_wigner" % kind, "Wigner function after %s on %s differs from the conditional state of the reported outcome by %.3g at %s" % (kind, modes, abs(a - b), np.round(x, 3).tolist()))
    return None


SUBS = [
    Sub("gaussian_dyne", check=check_gd, strategy=lambda ctx: gd_case(), examples={"quick": 500, "thorough": 5000}, shards={"quick": 1, "thorough": 16},
        rule="gaussian homodyne/heterodyne: sampler parameters and forced-outcome conditional state vs refsim"),
    Sub("fock_pnr", check=check_fp, strategy=lambda ctx: fp_case(), examples={"quick": 250, "thorough": 2500}, shards={"quick": 1, "thorough": 16},
        rule="fock MeasureFock on ordered subsets: sampler p vs fockref marginal, forced outcome -> projected state, sample layout"),
    Sub("fock_homodyne", check=check_fh, strategy=lambda ctx: fh_case(), examples={"quick": 25, "thorough": 250}, shards={"quick": 2, "thorough": 16},
        rule="fock homodyne: grid distribution moments, forced bin / select -> conditional state vs refsim"),
    Sub("bosonic_rejection", check=check_br, strategy=lambda ctx: br_case(), examples={"quick": 250, "thorough": 2500}, shards={"quick": 1, "thorough": 16},
        rule="bosonic homodyne/heterodyne rejection sampler on cat/Fock/Gaussian states: proposal parameters and acceptance threshold"),
    Sub("bosonic_conditional", check=check_bc, strategy=lambda ctx: bc_case(), examples={"quick": 250, "thorough": 2500}, shards={"quick": 1, "thorough": 16},
        rule="bosonic MeasureThreshold (forced click / no click, 1..2 modes), post-selected homodyne / heterodyne on cat/Fock/Gaussian mixtures: vacuum "
             "probability handed to the sampler and the post-measurement mixture (moments + Wigner function at generated points) vs the POVM applied term by term"),
    Sub("gaussian_pnr_args", check=check_gp, strategy=lambda ctx: gp_case(), examples={"quick": 400, "thorough": 4000}, shards={"quick": 1, "thorough": 16},
        rule="gaussian MeasureFock/MeasureThreshold: reduced mean/cov handed to thewalrus, sample shape and column order"),
    Sub("layout", check=check_lo, strategy=lambda ctx: lo_case(), examples={"quick": 300, "thorough": 3000}, shards={"quick": 1, "thorough": 16},
        rule="several measurements of unsorted modes: samples columns, samples_dict and RegRef.val carry each mode's own (tagged) outcome"),
]

MANIFEST = {
    "technique": "Hypothesis differential testing with rngspy: sampler arguments vs the Born distribution of an independent oracle, forced outcomes vs conditional states",
    "text": ("Instead of sampling statistics, the arguments handed to numpy's / thewalrus' samplers are recorded and compared with the Born "
             "distribution computed by refsim / fockref, outcomes are forced and the post-measurement state is compared with the oracle's "
             "conditional state (measured modes reset to vacuum), the bosonic rejection sampler's acceptance threshold is probed from both "
             "sides, and forced tagged outcomes must appear in Result.samples / samples_dict / RegRef.val under their own mode."),
}
