"""C16 - the observables offered by a state object are mutually consistent, across methods, across the
Gaussian / bosonic / Fock representation of one state, and for the subset and order of modes asked about.

State objects are constructed DIRECTLY (BaseGaussianState / BaseBosonicState / BaseFockState), never through
circuits, so that only strawberryfields/backends/states.py (and utils/post_processing.py) is exercised.

Sub-checks
  gauss_tri       one random Gaussian state (1..3 modes, pure/mixed, displaced, correlated, hbar in {0.7,2,3.1}) as
                  BaseGaussianState, one-weight BaseBosonicState and BaseFockState (thewalrus tensor, plus the ket
                  when pure): every public method against (a) closed phase-space formulas typed here, (b) exact
                  Fock-space formulas evaluated on the tensor, (c) the other representations (truncation guard);
                  mode subsets and orders; no method may change the state
  fock_nongauss   random low-photon kets and two-term mixtures as BaseFockState (ket data and tensor data)
  bosonic_cat     a cat state (four Gaussians with complex weights and means, typed from the cat formula),
                  alone or next to a Gaussian mode, as BaseBosonicState against the exact Fock ket
  bosonic_mix     a statistical mixture of 2..3 different Gaussian states (own covariance, means and inter-mode correlations per
                  weight, 1..3 modes) as one BaseBosonicState against the weighted phase-space formulas and the weighted sum of
                  the thewalrus tensors (the per-weight loops of the class see terms that differ in every ingredient)
  backend_state_order  backend.state(modes=..) / eng.run(prog, modes=..) on the gaussian, the bosonic and a fock backend per case:
                  subset / order (a 3-/4-cycle in every case), a register with a deleted mode, an int for modes, two program
                  segments on one engine, repeated requests (a request does not change the simulator)
  samples         utils.post_processing on generated integer / float sample arrays against numpy formulas

Axes shared by the direct-state sub-checks: the GLOBAL sf.hbar is changed between construction and the method calls in 1/3 of the
cases (a state answers in "the value of hbar used in the generation of the state"); int instead of [int] for displacement / squeezing /
reduced_*; the documented defaults (cutoff=10, d=0, k=0, A=None).
"""
from __future__ import annotations

import itertools
import math

import numpy as np
from hypothesis import strategies as st

from vf import fockref, gen
from vf.core import Sub

RULE = ("Hypothesis-generated states built directly as state objects (Gaussian: gen.covariance kinds or a low-energy "
        "variant, 1..3 modes, zero/small/large displacement, hbar in {0.7,2,3.1}; Fock: random kets/mixtures; bosonic: "
        "cat states) together with method arguments (mode subset and order, angle, photon pattern, alpha list, grid, "
        "A/d/k of a quadrature polynomial, a probe state); a case is non-trivial when the state has >= 2 modes with "
        "non-zero inter-mode correlation and a strict subset or a non-identity order of modes is requested (tri), "
        "resp. the state is not a vacuum/product of number states (fock), resp. always (cat, samples), resp. the terms of the mixture differ in "
        "covariance or means (mix), resp. >= 2 modes requested or a mode deleted (backend_state_order); distinct = distinct JSON")
ASSUMPTIONS = [
    "thewalrus.quantum.density_matrix / state_vector are trusted as the Fock representation of a Gaussian state "
    "given (x..,p..)-ordered moments (layout rho[i0,j0,i1,j1..] verified against density_matrix_element at start-up)",
    "phase-space oracles (moments of quadratic polynomials incl. the Moyal ordering term, parity, overlap, Wigner "
    "function of weighted Gaussians) are typed here from first principles and self-tested against brute-force "
    "Fock-space operator algebra at start-up",
    "same-representation comparisons: 1e-8 * (1 + |expected|) (Fock poly_quad_expectation 1e-6, Wigner points 1e-7); cross-representation comparisons with the Fock object only "
    "when the thewalrus tensor has edge weight (photon numbers >= cutoff-2 in any mode, plus the weight above the cutoff) "
    "< 1e-4, with tolerance 1e-6 + C*edge (C per quantity in _CROSS, >= 10x the largest ratio seen on 800 calibration cases); "
    "Wigner function: the rigorous bound 2 sqrt(1-trace)/(pi hbar)",
    "Gaussian reduced_dm/dm may or may not be normalised to trace 1 (both accepted)",
    "documented preconditions respected: Gaussian number_expectation <= 2 modes; sorted modes for reduced_*; "
    "squeezing()/is_squeezed() only judged on modes whose reduced state is pure and either exactly vacuum or "
    "squeezed by r >= 0.02",
    "a state object answers in the hbar it was created with (BaseState.hbar: 'the value of hbar used in the generation of the state'): the global "
    "sf.hbar is set to another value after construction in 1/3 of the cases and the oracles keep using the construction value",
    "backend_state_order: deleting a mode is a partial trace, so the state after Del (and gates on the surviving modes) is compared with the same "
    "circuit without the Del; `modes` indexes the remaining modes (gaussian, fock: comment in GaussianBackend.state); three input classes are withheld as "
    "AUDIT-FINDING (gaussian state(modes=int); bosonic subset after Del; bosonic second eng.run restarts from the vacuum)",
    "x_quad_values / p_quad_values integrate the Wigner function with the library's own Simpson rule; grids of +-6.5 sigma with "
    "step <= 1/5 of the marginal and 1/4 of the conditional width (cat: sigma/20): tolerance 3e-3 of the peak of the pdf",
]
REQUIRED_LABELS = {"all": ["rep:gaussian", "rep:bosonic", "rep:fock", "rep:fock_ket", "subset", "reordered", "mixed", "pure",
                           "displaced", "correlated", "cross_fock", "m:parity_expectation", "m:reduced_dm",
                           "m:number_expectation", "m:wigner", "m:poly_quad_expectation", "m:fock_prob",
                           "m:fidelity_coherent", "m:mean_photon", "m:quad_expectation", "m:squeezing",
                           "hbar:0.7", "hbar:2.0", "hbar:3.1", "cat", "samples", "non_involutive_order", "backend_state:fock_pure",
                           "backend_state:fock_mixed", "backend_state:gaussian", "backend_state:bosonic",
                           "mix", "mix_distinct_covs", "mix_correlated", "int_mode_arg", "default_cutoff", "global_hbar_changed_after_construction"]}

HBARS = [2.0, 0.7, 3.1]
TIGHT = 1e-8


class _Fail(Exception):
    def __init__(self, sig, detail):
        super().__init__(sig)
        self.sig = sig
        self.detail = detail


class _Crash(Exception):
    def __init__(self, exc, what):
        super().__init__(what)
        self.exc = exc
        self.what = what


# =================================================================================================
# oracle 1: phase space.  A state is  W(r) = sum_k w_k N(r; mu_k, V_k), (x_0..x_{n-1}, p_0..p_{n-1}) ordering,
# hbar units, complex w_k / mu_k allowed (analytic continuation).
# =================================================================================================
def omega(n):
    return np.block([[np.zeros((n, n)), np.eye(n)], [-np.eye(n), np.zeros((n, n))]])


class PS:
    def __init__(self, w, mus, Vs, hbar):
        self.w = np.atleast_1d(np.asarray(w, complex))
        self.mus = np.atleast_2d(np.asarray(mus, complex))
        self.Vs = np.asarray(Vs, complex)
        if self.Vs.ndim == 2:
            self.Vs = self.Vs[None]
        self.h = float(hbar)
        self.n = self.mus.shape[1] // 2

    def idx(self, modes):
        return [int(m) for m in modes] + [int(m) + self.n for m in modes]

    def reduced(self, modes):
        i = self.idx(modes)
        return PS(self.w, self.mus[:, i], self.Vs[:, i][:, :, i], self.h)

    # -- quadratic polynomial P = r^T A r + d^T r + k0 of the quadrature OPERATORS -------------------
    def poly(self, A, d=None, k0=0.0):
        """(<P>, <P^2> - <P>^2).  Classical Gaussian moments of the Weyl symbol plus the Moyal term:
        symbol(P^2) = P*P = P^2 - (hbar^2/2) tr(Om^T A Om A)."""
        N = 2 * self.n
        A = np.asarray(A, float)
        d = np.zeros(N) if d is None else np.asarray(d, float)
        Om = omega(self.n)
        moyal = (self.h ** 2 / 2.0) * np.trace(Om.T @ A @ Om @ A)
        m1 = 0.0
        m2 = 0.0
        for w, mu, V in zip(self.w, self.mus, self.Vs):
            e1 = np.trace(A @ V) + mu @ A @ mu + d @ mu + k0
            g = 2 * A @ mu + d
            cvar = 2 * np.trace(A @ V @ A @ V) + g @ V @ g
            m1 += w * e1
            m2 += w * (e1 ** 2 + cvar - moyal)
        return float(np.real(m1)), float(np.real(m2 - m1 ** 2))

    def rotated(self, A, d, phi):
        """coefficients of P(r') in terms of r, where x' = cos(phi) x + sin(phi) p, p' = -sin(phi) x + cos(phi) p
        on every mode (x' is the x_phi of quad_expectation)"""
        n = self.n
        c, s = math.cos(phi), math.sin(phi)
        M = np.block([[c * np.eye(n), s * np.eye(n)], [-s * np.eye(n), c * np.eye(n)]])
        A = np.asarray(A, float)
        d = np.zeros(2 * n) if d is None else np.asarray(d, float)
        return M.T @ A @ M, M.T @ d

    def num_coeff(self, m):
        A = np.zeros((2 * self.n, 2 * self.n))
        A[m, m] = A[m + self.n, m + self.n] = 1.0 / (2 * self.h)
        return A

    def mean_photon(self, m):
        return self.poly(self.num_coeff(m), None, -0.5)

    def quad(self, m, phi):
        d = np.zeros(2 * self.n)
        d[m] = math.cos(phi)
        d[m + self.n] = math.sin(phi)
        return self.poly(np.zeros((2 * self.n, 2 * self.n)), d, 0.0)

    def number_pair_mean(self, i, j):
        """<n_i n_j>, i != j (operators commute: the product of the Weyl symbols is the Weyl symbol)"""
        Ai, Aj = self.num_coeff(i), self.num_coeff(j)
        tot = 0.0
        for w, mu, V in zip(self.w, self.mus, self.Vs):
            ei = np.trace(Ai @ V) + mu @ Ai @ mu - 0.5
            ej = np.trace(Aj @ V) + mu @ Aj @ mu - 0.5
            cov = 2 * np.trace(Ai @ V @ Aj @ V) + 4 * mu @ Ai @ V @ Aj @ mu
            tot += w * (ei * ej + cov)
        return float(np.real(tot))

    def number_pair_second(self, i, j):
        """<n_i^2 n_j^2>, i != j, by Gauss-Hermite quadrature of the degree-8 symbol (Q_i^2-1/4)(Q_j^2-1/4)"""
        z, wz = np.polynomial.hermite_e.hermegauss(7)
        wz = wz / np.sqrt(2 * np.pi)
        Z = np.array(list(itertools.product(z, repeat=4)))
        WZ = np.prod(np.array(list(itertools.product(wz, repeat=4))), axis=1)
        ii = [i, j, i + self.n, j + self.n]
        tot = 0.0
        for w, mu, V in zip(self.w, self.mus, self.Vs):
            Vs = np.real(V[np.ix_(ii, ii)])
            L = np.linalg.cholesky((Vs + Vs.T) / 2)
            R = mu[ii][None, :] + Z @ L.T
            Qi = (R[:, 0] ** 2 + R[:, 2] ** 2) / (2 * self.h) - 0.5
            Qj = (R[:, 1] ** 2 + R[:, 3] ** 2) / (2 * self.h) - 0.5
            tot += w * np.sum(WZ * (Qi ** 2 - 0.25) * (Qj ** 2 - 0.25))
        return float(np.real(tot))

    def parity(self, modes):
        """(pi hbar)^k W_S(0): expectation of the product of the parity operators of `modes`"""
        i = self.idx(sorted(modes))
        k = len(modes)
        tot = 0.0
        for w, mu, V in zip(self.w, self.mus, self.Vs):
            m, v = mu[i], V[np.ix_(i, i)]
            tot += w * (self.h / 2) ** k * np.exp(-0.5 * m @ np.linalg.solve(v, m)) / np.sqrt(np.linalg.det(v))
        return float(np.real(tot))

    def wigner(self, m, xs, ps):
        """W[p_index, x_index] of mode m"""
        X, P = np.meshgrid(np.asarray(xs, float), np.asarray(ps, float))
        tot = np.zeros(X.shape, complex)
        for w, mu, V in zip(self.w, self.mus, self.Vs):
            a, b, c = V[m, m], V[m, m + self.n], V[m + self.n, m + self.n]
            det = a * c - b * b
            dx, dp = X - mu[m], P - mu[m + self.n]
            q = (c * dx * dx - 2 * b * dx * dp + a * dp * dp) / det
            tot += w * np.exp(-0.5 * q) / (2 * np.pi * np.sqrt(det))
        return np.real(tot)

    def quadpdf(self, m, q, phi):
        c, s = math.cos(phi), math.sin(phi)
        q = np.asarray(q, float)
        tot = np.zeros(q.shape, complex)
        for w, mu, V in zip(self.w, self.mus, self.Vs):
            mean = c * mu[m] + s * mu[m + self.n]
            var = c * c * V[m, m] + 2 * c * s * V[m, m + self.n] + s * s * V[m + self.n, m + self.n]
            tot += w * np.exp(-0.5 * (q - mean) ** 2 / var) / np.sqrt(2 * np.pi * var)
        return np.real(tot)

    def overlap(self, mu1, V1):
        """Tr(rho sigma) = (2 pi hbar)^n int W_rho W_sigma for a Gaussian sigma=(mu1,V1) on all modes of self"""
        tot = 0.0
        mu1 = np.asarray(mu1, float)
        for w, mu, V in zip(self.w, self.mus, self.Vs):
            S = V + np.asarray(V1, float)
            dl = mu - mu1
            tot += w * self.h ** self.n * np.exp(-0.5 * dl @ np.linalg.solve(S, dl)) / np.sqrt(np.linalg.det(S))
        return float(np.real(tot))

    def fid_coherent(self, alphas):
        al = np.asarray(alphas, complex)
        mu1 = np.sqrt(2 * self.h) * np.concatenate([al.real, al.imag])
        return self.overlap(mu1, np.eye(2 * self.n) * self.h / 2)

    def purity(self):
        tot = 0.0
        for w1, m1, V1 in zip(self.w, self.mus, self.Vs):
            for w2, m2, V2 in zip(self.w, self.mus, self.Vs):
                S = V1 + V2
                dl = m1 - m2
                tot += w1 * w2 * self.h ** self.n * np.exp(-0.5 * dl @ np.linalg.solve(S, dl)) / np.sqrt(np.linalg.det(S))
        return float(np.real(tot))

    def alpha(self, modes):
        mu = np.einsum("k,kj->j", self.w, self.mus)
        return np.array([(mu[m] + 1j * mu[m + self.n]) / np.sqrt(2 * self.h) for m in modes])


def squeezed_cov(r, phi, hbar):
    """single-mode squeezed vacuum S(r e^{i phi})|0> (ops.Sgate / Squeezed docstring)"""
    c2, s2 = math.cosh(2 * r), math.sinh(2 * r)
    return hbar / 2 * np.array([[c2 - s2 * math.cos(phi), -s2 * math.sin(phi)], [-s2 * math.sin(phi), c2 + s2 * math.cos(phi)]])


def cat_ps(a, theta, cphi, hbar):
    """|alpha> + e^{i cphi}|-alpha>, alpha = a e^{i theta}, as four Gaussians (the cross terms |alpha><-alpha| have the
    complex centre a-coordinate alpha, a*-coordinate -alpha* and the prefactor <-alpha|alpha> = exp(-2|alpha|^2))"""
    al = a * np.exp(1j * theta)
    norm = 1.0 / (2 * (1 + math.exp(-2 * a * a) * math.cos(cphi)))
    rp = np.sqrt(2 * hbar) * np.array([al.real, al.imag], complex)
    rc = np.sqrt(2 * hbar) * np.array([1j * al.imag, -1j * al.real])
    cc = np.exp(-2 * a * a - 1j * cphi)
    w = norm * np.array([1, 1, cc, np.conj(cc)])
    mus = np.array([rp, -rp, rc, np.conj(rc)])
    Vs = np.repeat((hbar / 2 * np.eye(2))[None], 4, axis=0)
    return w, mus, Vs


def cat_ket(a, theta, cphi, D):
    al = a * np.exp(1j * theta)
    k = np.arange(D)
    fac = np.array([math.factorial(int(i)) for i in k], float)
    co = np.exp(-a * a / 2) * al ** k / np.sqrt(fac)
    psi = co + np.exp(1j * cphi) * co * (-1.0) ** k
    return psi / np.sqrt(2 * (1 + math.exp(-2 * a * a) * math.cos(cphi)))


# =================================================================================================
# oracle 2: Fock space, exact on a (truncated) density tensor rho[i0,j0,i1,j1,...]
# =================================================================================================
def herm(D, x, hbar):
    """oscillator eigenfunctions psi_n(x), n < D (a = (x + i p)/sqrt(2 hbar), real, positive leading coefficient)"""
    x = np.atleast_1d(np.asarray(x, float))
    s = x / np.sqrt(hbar)
    out = np.zeros((D, x.size))
    out[0] = (np.pi * hbar) ** -0.25 * np.exp(-s * s / 2)
    if D > 1:
        out[1] = np.sqrt(2.0) * s * out[0]
    for k in range(1, D - 1):
        out[k + 1] = np.sqrt(2.0 / (k + 1)) * s * out[k] - np.sqrt(k / (k + 1.0)) * out[k - 1]
    return out


def fk_marg(rho, n, modes):
    """joint photon-number distribution of `modes` (axes in the order given)"""
    p = fockref.probs(rho, n)
    rest = tuple(m for m in range(n) if m not in modes)
    p = p.sum(axis=rest) if rest else p
    kept = [m for m in range(n) if m in modes]
    return np.transpose(p, [kept.index(m) for m in modes])


def fk_number(rho, n, modes):
    p = fk_marg(rho, n, modes)
    D = rho.shape[0]
    g1 = np.ones(p.shape)
    for ax in range(len(modes)):
        sh = [1] * len(modes)
        sh[ax] = D
        g1 = g1 * np.arange(D).reshape(sh)
    mean = float(np.sum(g1 * p))
    return mean, float(np.sum(g1 ** 2 * p)) - mean ** 2


def fk_diag(rho, n, modes, values):
    p = fk_marg(rho, n, modes)
    D = rho.shape[0]
    g1 = np.ones(p.shape)
    for ax in range(len(modes)):
        sh = [1] * len(modes)
        sh[ax] = D
        g1 = g1 * np.asarray(values, float).reshape(sh)
    return float(np.sum(g1 * p))


def fk_parity(rho, n, modes):
    return fk_diag(rho, n, modes, (-1.0) ** np.arange(rho.shape[0]))


def fk_quad(rho, n, m, phi, hbar):
    """(<x_phi>, var) from normally ordered moments: exact on the truncated tensor"""
    r1 = fockref.reduce_dm(rho, n, [m])
    D = r1.shape[0]
    k = np.arange(D)
    tr = np.real(np.trace(r1))
    a1 = np.sum(np.sqrt(k[1:]) * r1[k[1:], k[1:] - 1])
    a2 = np.sum(np.sqrt(k[2:] * (k[2:] - 1.0)) * r1[k[2:], k[2:] - 2])
    nn = np.real(np.sum(k * np.diag(r1)))
    mean = np.sqrt(hbar / 2) * 2 * np.real(np.exp(-1j * phi) * a1)
    sec = hbar / 2 * (2 * nn + tr + 2 * np.real(np.exp(-2j * phi) * a2))
    return float(mean), float(sec - mean ** 2)


def fk_poly(rho, n, A, d, k0, hbar, pad=2):
    """(<P>, var) of P = r^T A r + d^T r + k0 by explicit operator algebra in a space enlarged by `pad` levels
    (exact for a tensor supported below the cutoff).  A, d refer to all n modes; only modes with non-zero
    coefficients are kept."""
    A = np.asarray(A, float)
    d = np.asarray(d, float)
    act = sorted({int(i) % n for i in np.nonzero(A)[0]} | {int(i) % n for i in np.nonzero(d)[0]})
    tr = fockref.trace(rho, n)
    if not act:
        return k0 * tr, k0 * k0 * tr - (k0 * tr) ** 2
    k = len(act)
    D = rho.shape[0]
    E = D + pad
    red = fockref.reduce_dm(rho, n, act)
    big = np.zeros((E,) * (2 * k), complex)
    big[(slice(0, D),) * (2 * k)] = red
    M = fockref.dm_to_matrix(big, k)
    a = np.diag(np.sqrt(np.arange(1, E)), 1).astype(complex)
    x1 = np.sqrt(hbar / 2) * (a + a.conj().T)
    p1 = -1j * np.sqrt(hbar / 2) * (a - a.conj().T)

    def emb(op, pos):
        out = np.eye(1)
        for q in range(k):
            out = np.kron(out, op if q == pos else np.eye(E))
        return out

    ops_ = [emb(x1, q) for q in range(k)] + [emb(p1, q) for q in range(k)]
    rows = act + [m + n for m in act]
    Pop = k0 * np.eye(E ** k, dtype=complex)
    for u, ru in enumerate(rows):
        if d[ru] != 0:
            Pop = Pop + d[ru] * ops_[u]
        for v, rv in enumerate(rows):
            if A[ru, rv] != 0:
                Pop = Pop + A[ru, rv] * (ops_[u] @ ops_[v])
    mean = np.real(np.trace(M @ Pop))
    sec = np.real(np.trace(M @ Pop @ Pop))
    return float(mean), float(sec - mean ** 2)


def fk_wigner_point(r1, x, p, hbar):
    """W(x,p) = 1/(pi hbar) int dy e^{2ipy/hbar} <x-y|rho|x+y> by the trapezoid rule (spectrally accurate)"""
    D = r1.shape[0]
    sh = np.sqrt(hbar)
    L = abs(x) / sh + np.sqrt(2.0 * D) + 8.0
    y = np.arange(-L, L + 1e-9, 0.03) * sh
    f = np.einsum("my,mn,ny->y", herm(D, x - y, hbar), r1, herm(D, x + y, hbar))
    return float(np.real(np.sum(np.exp(2j * p * y / hbar) * f) * (y[1] - y[0])) / (np.pi * hbar))


def fk_quadpdf(r1, q, phi, hbar):
    """pdf of x_phi = cos(phi) x + sin(phi) p:  <q|U rho U^+|q>, U = exp(-i phi n)"""
    D = r1.shape[0]
    k = np.arange(D)
    rr = r1 * np.exp(-1j * phi * k)[:, None] * np.exp(1j * phi * k)[None, :]
    H = herm(D, q, hbar)
    return np.real(np.einsum("mq,mn,nq->q", H, rr, H))


def coh_vec(al, D):
    k = np.arange(D)
    fac = np.array([math.factorial(int(i)) for i in k], float)
    return np.exp(-abs(al) ** 2 / 2) * complex(al) ** k / np.sqrt(fac)


def fk_fid_product(rho, n, vecs):
    """<v_0 .. v_{n-1}| rho |v_0 .. v_{n-1}>"""
    t = rho
    for v in vecs:
        t = np.tensordot(np.tensordot(np.conj(v), t, axes=(0, 0)), v, axes=(0, 0))
    return float(np.real(t))


def gauss_tensor(mu, V, D, hbar):
    from thewalrus.quantum import density_matrix

    n = len(mu) // 2
    rho = np.asarray(density_matrix(np.asarray(mu, float), np.asarray(V, float), cutoff=D, hbar=hbar, normalize=False))
    return rho.reshape((D,) * (2 * n))


# =================================================================================================
# oracle self-test (hand-typed closed forms and brute-force operator algebra; no strawberryfields code)
# =================================================================================================
def selftest():
    from thewalrus.quantum import density_matrix_element

    fockref.selftest()
    for h in (2.0, 0.7):
        # closed forms: coherent, squeezed vacuum, thermal
        al = 0.4 - 0.3j
        mu = np.sqrt(2 * h) * np.array([al.real, al.imag])
        coh = PS([1], [mu], [h / 2 * np.eye(2)], h)
        assert np.allclose(coh.mean_photon(0), [abs(al) ** 2, abs(al) ** 2], atol=1e-12)
        assert abs(coh.parity([0]) - math.exp(-2 * abs(al) ** 2)) < 1e-12
        be = 0.1 + 0.5j
        assert abs(coh.fid_coherent([be]) - math.exp(-abs(al - be) ** 2)) < 1e-12
        r = 0.45
        sq = PS([1], [np.zeros(2)], [squeezed_cov(r, 0.0, h)], h)
        assert np.allclose(sq.mean_photon(0), [math.sinh(r) ** 2, 2 * math.sinh(r) ** 2 * math.cosh(r) ** 2], atol=1e-12)
        assert abs(sq.parity([0]) - 1) < 1e-12 and abs(sq.purity() - 1) < 1e-12
        assert np.allclose(sq.quad(0, 0.0), [0, h / 2 * math.exp(-2 * r)], atol=1e-12)
        nb = 0.7
        th = PS([1], [np.zeros(2)], [(2 * nb + 1) * h / 2 * np.eye(2)], h)
        assert np.allclose(th.mean_photon(0), [nb, nb * (nb + 1)], atol=1e-12)
        assert abs(th.parity([0]) - 1 / (2 * nb + 1)) < 1e-12 and abs(th.purity() - 1 / (2 * nb + 1)) < 1e-12
        # a correlated mixed two-mode state: phase-space oracle vs Fock oracle on the thewalrus tensor
        S1 = gen.orth_symplectic(np.array([[np.cos(0.7), -np.sin(0.7) * np.exp(-0.4j)], [np.sin(0.7) * np.exp(0.4j), np.cos(0.7)]]))
        Z = np.diag([math.exp(-0.3), math.exp(0.2), math.exp(0.3), math.exp(-0.2)])
        V = h / 2 * S1 @ Z @ np.diag([1.2, 1.0, 1.2, 1.0]) @ Z @ S1.T
        mu = np.sqrt(h / 2) * np.array([0.3, -0.2, 0.25, 0.1])
        ps = PS([1], [mu], [V], h)
        D = 22
        rho = gauss_tensor(mu, V, D, h)
        assert abs(fockref.trace(rho, 2) - 1) < 1e-9
        assert abs(rho[1, 1, 2, 2] - density_matrix_element(mu, V, [1, 2], [1, 2], hbar=h)) < 1e-12  # tensor layout
        # off-diagonal convention rho[i,j] = <i|rho|j>: coherent state, psi_1 conj(psi_0) = alpha exp(-|alpha|^2)
        rc1 = gauss_tensor(np.sqrt(2 * h) * np.array([0.3, 0.4]), h / 2 * np.eye(2), 6, h)
        assert abs(rc1[1, 0] - (0.3 + 0.4j) * math.exp(-0.25)) < 1e-12
        rng_A = np.array([[0.3, -0.2, 0.1, 0.4], [-0.2, 0.0, 0.25, -0.1], [0.1, 0.25, -0.5, 0.2], [0.4, -0.1, 0.2, 0.15]])
        dd = np.array([0.2, -0.4, 0.1, 0.3])
        for phi in (0.0, 0.6):
            A2, d2 = ps.rotated(rng_A, dd, phi)
            assert np.allclose(ps.poly(A2, d2, 0.3), fk_poly(rho, 2, A2, d2, 0.3, h), atol=1e-6), (ps.poly(A2, d2, 0.3), fk_poly(rho, 2, A2, d2, 0.3, h))
        for m in (0, 1):
            assert np.allclose(ps.mean_photon(m), fk_number(rho, 2, [m]), atol=1e-6)
            assert np.allclose(ps.quad(m, 0.8), fk_quad(rho, 2, m, 0.8, h), atol=1e-7)
            assert abs(ps.parity([m]) - fk_parity(rho, 2, [m])) < 1e-7
            r1 = fockref.reduce_dm(rho, 2, [m])
            x0, p0 = 0.4 * np.sqrt(h), -0.7 * np.sqrt(h)
            assert abs(ps.wigner(m, [x0], [p0])[0, 0] - fk_wigner_point(r1, x0, p0, h)) < 1e-7
            q = np.linspace(-2, 2, 5) * np.sqrt(h)
            assert np.allclose(ps.quadpdf(m, q, 1.1), fk_quadpdf(r1, q, 1.1, h), atol=1e-7)
        assert abs(ps.parity([0, 1]) - fk_parity(rho, 2, [0, 1])) < 1e-7
        assert abs(ps.parity([1, 0]) - ps.parity([0, 1])) < 1e-14
        nm, nv = fk_number(rho, 2, [0, 1])
        assert abs(ps.number_pair_mean(0, 1) - nm) < 1e-6
        assert abs(ps.number_pair_second(0, 1) - nm ** 2 - nv) < 1e-5
        assert abs(ps.purity() - fockref.purity(rho, 2)) < 1e-6
        als = [0.2 - 0.1j, -0.3 + 0.25j]
        assert abs(ps.fid_coherent(als) - fk_fid_product(rho, 2, [coh_vec(a_, D) for a_ in als])) < 1e-8
        # cat state: four-Gaussian formula vs exact ket
        a, th_, cphi = 0.9, 0.5, 0.7
        w, mus, Vs = cat_ps(a, th_, cphi, h)
        cps = PS(w, mus, Vs, h)
        psi = cat_ket(a, th_, cphi, 30)
        assert abs(np.vdot(psi, psi) - 1) < 1e-12 and abs(np.sum(w) - 1) < 1e-12
        rc = fockref.ket_to_dm(psi)
        x0, p0 = 0.35 * np.sqrt(h), 0.8 * np.sqrt(h)
        assert abs(cps.wigner(0, [x0], [p0])[0, 0] - fk_wigner_point(rc, x0, p0, h)) < 1e-8
        assert np.allclose(cps.mean_photon(0), fk_number(rc, 1, [0]), atol=1e-9)
        assert np.allclose(cps.quad(0, 0.4), fk_quad(rc, 1, 0, 0.4, h), atol=1e-9)
        assert abs(cps.parity([0]) - fk_parity(rc, 1, [0])) < 1e-9
        assert abs(cps.purity() - 1) < 1e-9
        assert abs(cps.fid_coherent([0.3 + 0.2j]) - abs(np.vdot(coh_vec(0.3 + 0.2j, 30), psi)) ** 2) < 1e-10
        # Fock state |1>: W(0,0) = -1/(pi hbar)
        f1 = np.zeros((6, 6), complex)
        f1[1, 1] = 1
        assert abs(fk_wigner_point(f1, 0.0, 0.0, h) + 1 / (np.pi * h)) < 1e-9
    return True


# =================================================================================================
# plumbing: every method call goes through a Probe (no-mutation + repeatability), comparisons through _cmp
# =================================================================================================
REPNAME = {"G": "gaussian", "B": "bosonic", "F": "fock", "K": "fock_ket"}


def _arrs(state, rep):
    if rep == "G":
        return [state.data[0], state.data[1], state.means(), state.cov()]
    if rep == "B":
        return [state.data[0], state.data[1], state.data[2], state.means(), state.covs(), state.weights()]
    return [state.data]


def _same(a, b):
    if a is None or b is None:
        return a is None and b is None
    if isinstance(a, (tuple, list)):
        return isinstance(b, (tuple, list)) and len(a) == len(b) and all(_same(x, y) for x, y in zip(a, b))
    a, b = np.asarray(a), np.asarray(b)
    if a.dtype == object or b.dtype == object:
        return a.shape == b.shape and all(_same(x, y) for x, y in zip(a.ravel(), b.ravel()))
    return a.shape == b.shape and bool(np.allclose(a, b, rtol=1e-12, atol=1e-14, equal_nan=True))


class Probe:
    def __init__(self, state, rep, labels):
        self.s = state
        self.rep = rep
        self.labels = labels
        self.ref = [np.array(a, copy=True) for a in _arrs(state, rep)]
        labels.add("rep:" + REPNAME[rep])

    def unchanged(self):
        cur = _arrs(self.s, self.rep)
        return all(c.shape == r.shape and np.array_equal(c, r) for c, r in zip(cur, self.ref))

    def call(self, name, *args, **kw):
        """call twice (once if once_=True: expensive calls); the state must stay bit-identical and the answers equal.
        ValueError / NotImplementedError propagate to the caller (documented rejections are judged there)."""
        self.labels.add("m:" + name)
        out = []
        for rnd in ((0,) if kw.pop("once_", False) else (0, 1)):
            try:
                res = getattr(self.s, name)(*args, **kw)
            except (ValueError, NotImplementedError):
                if not self.unchanged():
                    raise _Fail("mutation.%s.%s" % (REPNAME[self.rep], name), "state changed by a rejected call") from None
                raise
            except Exception as exc:  # pylint: disable=broad-except
                raise _Crash(exc, "%s.%s" % (REPNAME[self.rep], name)) from exc
            if not self.unchanged():
                self._mutation(name, args)
            out.append(res)
        if len(out) == 2 and not _same(out[0], out[1]):
            raise _Fail("not_repeatable.%s.%s" % (REPNAME[self.rep], name), "two identical calls returned %r and %r" % (out[0], out[1]))
        return out[0]

    def _mutation(self, name, args):
        if self.rep == "G" and name in ("is_coherent", "is_squeezed", "squeezing"):
            h = self.s.hbar
            if np.allclose(self.s.cov(), self.ref[3] / (h / 2), rtol=1e-12, atol=0) and np.array_equal(self.s.means(), self.ref[2]):
                raise _Fail("F31.gaussian_inplace_cov_rescale", "%s%r divided the state's own covariance matrix by hbar/2=%g in place: "
                            "cov()[0,0] %.6g -> %.6g" % (name, tuple(args), h / 2, self.ref[3][0, 0], self.s.cov()[0, 0]))
        raise _Fail("mutation.%s.%s" % (REPNAME[self.rep], name), "%s%r changed the state's data" % (name, tuple(args)))

    def rejects(self, name, *args, exc=ValueError, **kw):
        """True iff the call raises `exc` (cleanly, state unchanged)"""
        try:
            self.call(name, *args, **kw)
        except exc:
            return True
        return False


def _num(x):
    a = np.asarray(x)
    if a.dtype == object:
        a = np.array(a.tolist(), dtype=complex)
    return a


STATS = None  # development aid: set to a dict to record the largest |diff| / tolerance per signature


def _cmp(sig, got, exp, tol, what=""):
    """absolute tolerance scaled by 1 + max|exp|"""
    g, e = _num(got), _num(exp)
    if g.shape != e.shape:
        raise _Fail(sig + ".shape", "%s: shape %r, expected %r" % (what or sig, g.shape, e.shape))
    if g.size == 0:
        return 0.0
    if not np.all(np.isfinite(g)):
        raise _Fail(sig + ".nonfinite", "%s: got %r" % (what or sig, got))
    err = float(np.max(np.abs(g - e)))
    lim = tol * (1.0 + float(np.max(np.abs(e))))
    if STATS is not None and lim > 0:
        STATS[sig] = max(STATS.get(sig, 0.0), err / lim)
    if err > lim:
        raise _Fail(sig, "%s: got %s expected %s |diff|=%.3g > %.3g" % (what or sig, _short(g), _short(e), err, lim))
    return err / lim if lim > 0 else 0.0


def _cmp_pdf(sig, got, exp, what):
    """Simpson-integrated Wigner function vs the quadrature pdf: 3e-3 of the peak"""
    pk = float(np.max(np.abs(exp)))
    return _cmp(sig, got, exp, 3e-3 * pk / (1 + pk), what)


def _short(a):
    a = np.asarray(a)
    if a.size <= 6:
        return np.array2string(a, precision=8)
    return "array%r max|.|=%.6g" % (a.shape, float(np.max(np.abs(a))))


def _real(x, sig):
    """methods documented to return floats: a complex value with non-zero imaginary part is a failure"""
    a = _num(x)
    if np.iscomplexobj(a):
        if float(np.max(np.abs(a.imag))) > 1e-9 * (1 + float(np.max(np.abs(a)))):
            raise _Fail(sig + ".complex", "complex answer %r" % (x,))
        a = a.real
    return a


def _modes_call(pr, name, modes, sig, **kw):
    """method(modes): returns the answer, or None if the call raised ValueError for UNSORTED modes (the classes document /
    enforce sorted input for reduced_*); ValueError for sorted, valid modes is a failure"""
    srt = list(modes) == sorted(modes)
    try:
        got = pr.call(name, list(modes), **kw)
    except ValueError as exc:
        if srt:
            raise _Fail(sig + ".rejects_sorted_modes", "%s(%r) raised ValueError(%s)" % (name, modes, exc)) from None
        pr.labels.add("unsorted_rejected")
        return None
    return got


# =================================================================================================
# checks of a phase-space object (BaseGaussianState "G" / BaseBosonicState "B") against the PS oracle `o`
# =================================================================================================
def _xpxp(n):
    return [i for k in range(n) for i in (k, k + n)]


def _norm_or_not(sig, got, exp, tol, what):
    """Fock-basis matrices of the Gaussian class are normalised to trace 1, others are not: accept both"""
    k = np.asarray(exp).ndim // 2
    tr = fockref.trace(np.asarray(exp), k)
    try:
        return _cmp(sig, got, exp, tol, what)
    except _Fail as first:
        if first.sig.endswith(".shape"):
            raise
        try:
            return _cmp(sig, got, np.asarray(exp) / tr, tol, what)
        except _Fail:
            raise first from None


def check_ps_object(pr, o, a, R):
    """pr: Probe of a G or B object; o: PS oracle; a: argument dict; R: result sink for cross-representation"""
    rep, n, h = pr.rep, o.n, o.h
    nm = REPNAME[rep]
    modes = a["modes"]
    srt = sorted(modes)
    fx = a["fx"]

    # ---- raw accessors ------------------------------------------------------------------------
    if rep == "G":
        _cmp("gaussian.means", pr.call("means"), np.real(o.mus[0]), 1e-12)
        _cmp("gaussian.cov", pr.call("cov"), np.real(o.Vs[0]), 1e-12)
        if pr.s.is_pure is not None and a.get("pure") is not None and bool(pr.s.is_pure) != bool(a["pure"]):
            raise _Fail("gaussian.is_pure", "is_pure=%r for a state of purity %.9f" % (pr.s.is_pure, o.purity()))
        pr.labels.add("m:is_pure")
    else:
        xp = _xpxp(n)
        _cmp("bosonic.means", pr.call("means"), o.mus[:, xp], 1e-12)
        _cmp("bosonic.covs", pr.call("covs"), o.Vs[:, xp][:, :, xp], 1e-12)
        _cmp("bosonic.weights", pr.call("weights"), o.w, 1e-12)
        _cmp("bosonic.purity", _real(pr.call("purity"), "bosonic.purity"), o.purity(), TIGHT)

    # ---- reduced moments: sub-blocks in the requested order ---------------------------------------
    if rep == "G":
        got = _modes_call(pr, "reduced_gaussian", modes, "gaussian.reduced_gaussian")
        if got is not None:
            i = o.idx(modes)
            _cmp("gaussian.reduced_gaussian.means", got[0], np.real(o.mus[0][i]), 1e-12, "reduced_gaussian(%r)[0]" % (modes,))
            _cmp("gaussian.reduced_gaussian.cov", got[1], np.real(o.Vs[0][np.ix_(i, i)]), 1e-12, "reduced_gaussian(%r)[1]" % (modes,))
        g1 = pr.call("reduced_gaussian", int(modes[0]))
        i = o.idx([modes[0]])
        _cmp("gaussian.reduced_gaussian.int", g1[1], np.real(o.Vs[0][np.ix_(i, i)]), 1e-12)
    else:
        got = _modes_call(pr, "reduced_bosonic", modes, "bosonic.reduced_bosonic")
        if got is not None:
            i = [j for m in modes for j in (m, m + n)]
            _cmp("bosonic.reduced_bosonic.weights", got[0], o.w, 1e-12)
            _cmp("bosonic.reduced_bosonic.means", got[1], o.mus[:, i], 1e-12, "reduced_bosonic(%r)[1]" % (modes,))
            _cmp("bosonic.reduced_bosonic.covs", got[2], o.Vs[:, i][:, :, i], 1e-12, "reduced_bosonic(%r)[2]" % (modes,))
        g1 = pr.call("reduced_bosonic", int(modes[-1]))  # "modes (int of Sequence[int])"
        i = [modes[-1], modes[-1] + n]
        _cmp("bosonic.reduced_bosonic.int.means", g1[1], o.mus[:, i], 1e-12, "reduced_bosonic(%d)[1]" % modes[-1])
        _cmp("bosonic.reduced_bosonic.int.covs", g1[2], o.Vs[:, i][:, :, i], 1e-12, "reduced_bosonic(%d)[2]" % modes[-1])

    # ---- displacement -------------------------------------------------------------------------
    exp = o.alpha(modes)
    got = pr.call("displacement", list(modes))
    try:
        _cmp(nm + ".displacement", got, exp, TIGHT, "displacement(%r)" % (modes,))
    except _Fail as f:
        if rep == "B" and modes != srt and np.asarray(got).shape == exp.shape and np.allclose(got, o.alpha(srt), atol=1e-9) and not f.sig.endswith(".shape"):
            raise _Fail("bosonic_displacement_ignores_mode_order", "displacement(%r) returned the displacements of modes %r: "
                        "got %s expected %s" % (modes, srt, _short(np.asarray(got)), _short(exp))) from None
        raise
    _cmp(nm + ".displacement.default", pr.call("displacement"), o.alpha(range(n)), TIGHT)
    # "modes (int or Sequence[int])": a bare int is one mode
    _cmp(nm + ".displacement.int", pr.call("displacement", int(modes[-1])), o.alpha([modes[-1]]), TIGHT, "displacement(%d)" % modes[-1])
    pr.labels.add("int_mode_arg")
    R["displacement"] = np.asarray(got) if np.asarray(got).shape == exp.shape else exp

    # ---- squeezing / is_coherent / is_squeezed (Gaussian class only) ---------------------------------
    if rep == "G":
        _check_squeezing(pr, o, modes)

    # ---- fidelities ---------------------------------------------------------------------------
    fv = _real(pr.call("fidelity_vacuum"), nm + ".fidelity_vacuum")
    fc0 = _real(pr.call("fidelity_coherent", [0.0] * n), nm + ".fidelity_coherent")
    _cmp(nm + ".fidelity_vacuum", fv, o.fid_coherent([0.0] * n), TIGHT)
    _cmp(nm + ".fidelity_vacuum_vs_coherent0", fv, fc0, TIGHT)
    fc = _real(pr.call("fidelity_coherent", list(a["alphas"])), nm + ".fidelity_coherent")
    _cmp(nm + ".fidelity_coherent", fc, o.fid_coherent(a["alphas"]), TIGHT, "fidelity_coherent(%r)" % (a["alphas"],))
    fc2 = _real(pr.call("fidelity_coherent", np.array(a["alphas"])), nm + ".fidelity_coherent")
    _cmp(nm + ".fidelity_coherent.ndarray", fc2, fc, TIGHT)
    R["fidelity_vacuum"], R["fidelity_coherent"] = fv, fc
    if rep == "G":
        mu1, V1, om = a["other"]
        got = _real(pr.call("fidelity", (mu1.copy(), V1.copy()), int(om)), "gaussian.fidelity")
        _cmp("gaussian.fidelity", got, o.reduced([om]).overlap(mu1, V1), 1e-7, "fidelity(pure Gaussian, %d)" % om)
        R["fidelity"] = got
    else:
        pr.rejects("fidelity", None, 0, exc=NotImplementedError)

    # ---- Fock probabilities -------------------------------------------------------------------
    pat = a["pat"]
    soft = a["soft"]
    ctf = max(sum(pat) + 1, a["D"])
    p0 = _real(pr.call("fock_prob", [0] * n, cutoff=ctf), nm + ".fock_prob")
    got = _real(pr.call("fock_prob", list(pat), cutoff=ctf), nm + ".fock_prob")
    for pt, val, exp in (([0] * n, p0, fx["prob_vac"]), (list(pat), got, fx["prob_pat"])):
        try:
            _cmp(nm + ".fock_prob", val, exp, fx["tol"], "fock_prob(%r)" % (pt,))
        except _Fail:
            if rep == "B" and n >= 2 and _f30_prob(o, pt, val, _xpxp(n)) and not _f30_prob(o, pt, val, list(range(2 * n))):
                raise _Fail("F30.bosonic_xpxp_to_thewalrus.fock_prob", "fock_prob(%r) = %.9g, the probability is %.9g; the value is what thewalrus "
                            "returns when handed the (x0,p0,x1,p1..)-ordered means/covs as if (x0,x1..,p0,p1..)" % (pt, float(val), exp)) from None
            if rep == "B" and _complex_means(o) and _f30_prob(o, pt, val, list(range(2 * n))):
                soft.append((SIG_CPLX, "fock_prob(%r) = %.9g of a state with complex-mean Gaussians (cat); the probability is %.9g (fidelity_vacuum()=%.9g, "
                             "mean_photon etc. of the same object are right); the value equals sum_k w_k thewalrus.density_matrix_element(mu_k, V_k), which "
                             "conjugates instead of continuing analytically" % (pt, float(val), exp, float(fv))))
                got = None
                break
            raise
    else:
        _cmp(nm + ".fidelity_vacuum_vs_fock_prob0", fv, p0, TIGHT)
        R["fock_prob"] = got
    if rep == "G":
        cs = a["cs"]
        ap = pr.call("all_fock_probs", cutoff=cs)
        _cmp("gaussian.all_fock_probs", ap, fx["probs_small"], TIGHT, "all_fock_probs(cutoff=%d)" % cs)
        if max(pat) < cs and got is not None:
            _cmp("gaussian.fock_prob_vs_all_fock_probs", got, np.asarray(ap)[tuple(pat)], TIGHT)
    else:
        pr.rejects("all_fock_probs", exc=NotImplementedError)

    # ---- Fock-basis matrices -------------------------------------------------------------------
    D = a["D"]
    got = _modes_call(pr, "reduced_dm", modes, nm + ".reduced_dm", cutoff=D)
    soft = a["soft"]
    if got is not None:
        exp = fx["red"](modes)
        got = np.asarray(got)
        if got.shape != exp.shape and got.shape == (D ** len(modes),) * 2:
            sg = "F29.gaussian_reduced_dm_flattened_layout" if rep == "G" else nm + ".reduced_dm.flattened_layout"
            soft.append((sg, "reduced_dm(%r, cutoff=%d) has shape %r; BaseFockState and the mixed branch return the tensor %r" % (modes, D, got.shape, exp.shape)))
            k = len(modes)
            got = np.transpose(got.reshape((D,) * (2 * k)), [x for q in range(k) for x in (q, q + k)])
        try:
            _norm_or_not(nm + ".reduced_dm", got, exp, fx["tol"], "reduced_dm(%r)" % (modes,))
        except _Fail as f:
            if rep == "G" and a.get("pure") and not f.sig.endswith(".shape") and _f29_pred(o, modes, D, got):
                raise _Fail("F29.gaussian_reduced_dm_pure_branch_on_mixed_reduced_state", "reduced_dm(%r) of a pure entangled state: got diag %s, expected %s; "
                            "the value is |psi><psi| of state_vector(reduced moments, check_purity=False)" % (
                                modes, _short(np.real(np.diag(fockref.dm_to_matrix(got, len(modes))))[:4]),
                                _short(np.real(np.diag(fockref.dm_to_matrix(exp, len(modes))))[:4]))) from None
            if rep == "B" and len(modes) >= 2 and not f.sig.endswith(".shape") and _f30_dm(o, modes, D, got, True) and not _f30_dm(o, modes, D, got, False):
                raise _Fail("F30.bosonic_xpxp_to_thewalrus.reduced_dm", "reduced_dm(%r) differs from the reduced density tensor (%s) and equals what thewalrus "
                            "returns for the xpxp-ordered data read as xxpp" % (modes, f.detail[-60:])) from None
            if rep == "B" and _complex_means(o) and not f.sig.endswith(".shape") and _f30_dm(o, modes, D, got, False):
                soft.append((SIG_CPLX, "reduced_dm(%r) of a state with complex-mean Gaussians (cat) is wrong (%s); it equals sum_k w_k thewalrus.density_matrix(mu_k, V_k)" % (modes, f.detail[-70:])))
                got = None
            else:
                raise
        if got is not None:
            R["reduced_dm"] = got
    if len(modes) == 1 and not (rep == "B" and _complex_means(o)):
        gi = np.asarray(pr.call("reduced_dm", int(modes[0]), cutoff=D))
        _norm_or_not(nm + ".reduced_dm.int", gi, fx["red"](modes), fx["tol"], "reduced_dm(%d)" % modes[0])
    if "red10" in fx and not (rep == "B" and _complex_means(o)):  # "cutoff (int): ... (default value is 10)"
        ml = int(modes[-1])
        gi = np.asarray(pr.call("reduced_dm", [ml]))
        _norm_or_not(nm + ".reduced_dm.default_cutoff", gi, fx["red10"](ml), fx["tol"], "reduced_dm([%d]) without cutoff" % ml)
        if sum(pat) < 10:
            gp = _real(pr.call("fock_prob", list(pat)), nm + ".fock_prob")
            _cmp(nm + ".fock_prob.default_cutoff", gp, fx["prob_pat"], fx["tol"], "fock_prob(%r) without cutoff" % (pat,))
        if rep == "G" and n == 1:
            _cmp("gaussian.all_fock_probs.default_cutoff", pr.call("all_fock_probs"), np.real(np.diag(fx["red10"](0))), TIGHT, "all_fock_probs() without cutoff")
        pr.labels.add("default_cutoff")
    cs = a["cs"]
    got = np.asarray(pr.call("dm", cutoff=cs))
    exp = fx["full_small"]
    if got.shape != exp.shape and got.shape == (cs ** n,) * 2:
        sg = "F29.gaussian_reduced_dm_flattened_layout" if rep == "G" else nm + ".dm.flattened_layout"
        soft.append((sg, "dm(cutoff=%d) of a %d-mode state has shape %r instead of %r" % (cs, n, got.shape, exp.shape)))
        got = np.transpose(got.reshape((cs,) * (2 * n)), [x for q in range(n) for x in (q, q + n)])
    try:
        _norm_or_not(nm + ".dm", got, exp, fx["tol"], "dm(cutoff=%d)" % cs)
    except _Fail as f:
        if rep == "B" and n >= 2 and not f.sig.endswith(".shape") and _f30_dm(o, list(range(n)), cs, got, True) and not _f30_dm(o, list(range(n)), cs, got, False):
            raise _Fail("F30.bosonic_xpxp_to_thewalrus.reduced_dm", "dm(cutoff=%d) equals what thewalrus returns for the xpxp-ordered data read as xxpp" % cs) from None
        if rep == "B" and _complex_means(o) and not f.sig.endswith(".shape") and _f30_dm(o, list(range(n)), cs, got, False):
            soft.append((SIG_CPLX, "dm(cutoff=%d) of a state with complex-mean Gaussians (cat) is wrong (%s)" % (cs, f.detail[-70:])))
        else:
            raise
    if rep == "G":
        ket = pr.call("ket", cutoff=cs)
        if a.get("pure"):
            if ket is None:
                raise _Fail("gaussian.ket.none_for_pure", "ket() returned None for a pure state")
            ket = np.asarray(ket)
            if ket.shape != (cs,) * n:
                raise _Fail("gaussian.ket.shape", "ket(cutoff=%d) has shape %r" % (cs, ket.shape))
            _norm_or_not("gaussian.ket", fockref.ket_to_dm(ket), exp, TIGHT, "|ket><ket| vs density tensor")
        elif ket is not None:
            raise _Fail("gaussian.ket.not_none_for_mixed", "ket() of a mixed state returned an array (documented: None)")
    else:
        pr.rejects("ket", exc=NotImplementedError)


    # ---- photon statistics --------------------------------------------------------------------
    for m in modes:
        got = _real(pr.call("mean_photon", int(m)), nm + ".mean_photon")
        _cmp(nm + ".mean_photon", got, o.mean_photon(m), TIGHT, "mean_photon(%d)" % m)
        R["mean_photon", m] = got
    if rep == "G":
        for m in modes:
            got = _real(pr.call("number_expectation", [int(m)]), "gaussian.number_expectation")
            _cmp("gaussian.number_expectation.one", got, o.mean_photon(m), TIGHT, "number_expectation([%d])" % m)
            R["number_expectation", (m,)] = got
        if len(modes) >= 2:
            i, j = modes[0], modes[1]
            exp = o.number_pair_mean(i, j)
            expv = o.number_pair_second(i, j) - exp ** 2
            for pair in ([i, j], [j, i]):
                got = _real(pr.call("number_expectation", [int(pair[0]), int(pair[1])]), "gaussian.number_expectation")
                _cmp("gaussian.number_expectation.pair", got[0], exp, TIGHT, "number_expectation(%r)[0]" % (pair,))
                _cmp("gaussian.number_expectation.pair_var", got[1], expv, 1e-6, "number_expectation(%r)[1]" % (pair,))
            R["number_expectation", (i, j)] = got
    else:
        if not pr.rejects("number_expectation", [int(modes[0])], exc=NotImplementedError):
            pr.labels.add("bosonic_number_expectation_implemented")

    # ---- parity ------------------------------------------------------------------------------
    for md in ([modes] if modes == srt else [modes, srt]):
        got = _parity(pr, o, md)
        R["parity_expectation", tuple(srt)] = got
    if "parity_dist" in fx:  # independent bound: |parity - sum (-1)^n p(n)| <= weight of the distribution above the cutoff
        ps_, tl = fx["parity_dist"]
        if abs(float(got) - ps_) > tl + 1e-9:
            raise _Fail(nm + ".parity_vs_distribution", "parity_expectation(%r)=%.9g but sum (-1)^n p(n) = %.9g +- %.2g" % (modes, float(got), ps_, tl))
    m0 = modes[0]
    w00 = pr.call("wigner", int(m0), np.array([0.0]), np.array([0.0]))
    p1 = _parity(pr, o, [m0])
    _cmp(nm + ".parity_vs_wigner_origin", p1, np.pi * h * float(np.ravel(_real(w00, nm + ".wigner"))[0]), TIGHT, "parity([%d]) vs pi*hbar*W(0,0)" % m0)

    # ---- quadratures --------------------------------------------------------------------------
    for m in modes:
        got = _real(pr.call("quad_expectation", int(m), a["phi"]), nm + ".quad_expectation")
        _cmp(nm + ".quad_expectation", got, o.quad(m, a["phi"]), TIGHT, "quad_expectation(%d, %r)" % (m, a["phi"]))
        R["quad_expectation", m] = got
    _cmp(nm + ".quad_expectation.default", _real(pr.call("quad_expectation", int(m0)), nm + ".quad_expectation"), o.quad(m0, 0.0), TIGHT)
    if rep == "G":
        A2, d2 = o.rotated(a["A"], a["d"], a["pq_phi"])
        exp = o.poly(A2, d2, a["k0"])
        got = _real(pr.call("poly_quad_expectation", a["A"].copy(), a["d"].copy(), a["k0"], phi=a["pq_phi"]), "gaussian.poly_quad_expectation")
        _cmp("gaussian.poly_quad_expectation.mean", got[0], exp[0], TIGHT, "poly_quad_expectation mean (phi=%r)" % a["pq_phi"])
        _cmp("gaussian.poly_quad_expectation.var", got[1], exp[1], TIGHT, "poly_quad_expectation var (phi=%r)" % a["pq_phi"])
        R["poly_quad_expectation"] = got
        # the same method must reproduce quad_expectation: P = x_phi of one mode
        dd = np.zeros(2 * n)
        dd[m0] = 1.0
        got = _real(pr.call("poly_quad_expectation", None, dd, 0, phi=a["phi"]), "gaussian.poly_quad_expectation")
        _cmp("gaussian.poly_quad_vs_quad_expectation", got, o.quad(m0, a["phi"]), TIGHT, "poly_quad_expectation(None, e_x%d, phi) vs quad_expectation" % m0)
        # documented defaults: d = zero vector, k = 0, phi = 0; a constant polynomial has mean k and no variance
        got = _real(pr.call("poly_quad_expectation", a["A"].copy()), "gaussian.poly_quad_expectation")
        _cmp("gaussian.poly_quad_expectation.defaults", got, o.poly(a["A"], None, 0.0) if np.any(a["A"]) else (0.0, 0.0), TIGHT, "poly_quad_expectation(A)")
        got = _real(pr.call("poly_quad_expectation", None, None, a["k0"], phi=a["pq_phi"]), "gaussian.poly_quad_expectation")
        _cmp("gaussian.poly_quad_expectation.constant", got, (a["k0"], 0.0), TIGHT, "poly_quad_expectation(None, None, k)")
    else:
        pr.rejects("poly_quad_expectation", a["A"].copy(), exc=NotImplementedError)

    # ---- Wigner function: values and layout W[p_index, x_index] ---------------------------------------
    xs, ps_ = a["xs"], a["ps"]
    W = _real(pr.call("wigner", int(m0), xs.copy(), ps_.copy()), nm + ".wigner")
    exp = o.wigner(m0, xs, ps_)
    if W.shape != exp.shape:
        raise _Fail(nm + ".wigner.layout", "wigner(xvec[%d], pvec[%d]) has shape %r, every other class returns W[p_index, x_index]" % (len(xs), len(ps_), W.shape))
    _cmp(nm + ".wigner", W, exp, TIGHT * 10, "wigner(%d)" % m0)
    R["wigner"] = W
    qg = a["quadgrid"][m0]
    gx = qg["xc"]
    if a["quadvals"]:  # evaluation points coarse, integration variable fine (and of a different length)
        xq = _real(pr.call("x_quad_values", int(m0), qg["xc"].copy(), qg["pf"].copy()), nm + ".x_quad_values")
        pq = _real(pr.call("p_quad_values", int(m0), qg["xf"].copy(), qg["pc"].copy()), nm + ".p_quad_values")
        _cmp_pdf(nm + ".x_quad_values", xq, o.quadpdf(m0, qg["xc"], 0.0), "x_quad_values(%d)" % m0)
        _cmp_pdf(nm + ".p_quad_values", pq, o.quadpdf(m0, qg["pc"], np.pi / 2), "p_quad_values(%d)" % m0)
    if rep == "B":
        got = _real(pr.call("marginal", int(m0), gx.copy(), a["phi"]), "bosonic.marginal")
        _cmp("bosonic.marginal", got, o.quadpdf(m0, gx, a["phi"]), TIGHT, "marginal(%d, phi=%r)" % (m0, a["phi"]))


def _parity(pr, o, md):
    nm, n, h = REPNAME[pr.rep], o.n, o.h
    got = _real(pr.call("parity_expectation", [int(m) for m in md]), nm + ".parity_expectation")
    exp = o.parity(md)
    try:
        _cmp(nm + ".parity_expectation", got, exp, TIGHT, "parity_expectation(%r)" % (md,))
    except _Fail:
        if pr.rep == "G" and len(md) < n:
            full = (h / 2) ** len(md) * o.parity(range(n)) / (h / 2) ** n
            if abs(float(got) - full) < 1e-9 * (1 + abs(full)):
                raise _Fail("F28.gaussian_parity_subset", "parity_expectation(%r) of a %d-mode state = %.9g; the parity of these modes is %.9g; the value equals "
                            "(hbar/2)^%d exp(-mu V^-1 mu/2)/sqrt(det V) with the FULL means/cov" % (md, n, float(got), exp, len(md))) from None
        raise
    return got


def _check_squeezing(pr, o, modes):
    h = o.h
    for m in modes:
        i = o.idx([m])
        v = np.real(o.Vs[0][np.ix_(i, i)]) / (h / 2)
        dev = float(np.max(np.abs(v - np.eye(2))))
        ic = pr.call("is_coherent", int(m))
        if dev < 1e-13 and not ic:
            raise _Fail("gaussian.is_coherent", "is_coherent(%d) is False for a vacuum-covariance mode" % m)
        if dev > 1e-8 and ic:
            raise _Fail("gaussian.is_coherent", "is_coherent(%d) is True, cov/(hbar/2) deviates from 1 by %.3g" % (m, dev))
        isq = pr.call("is_squeezed", int(m))
        pure_mode = abs(np.linalg.det(v) - 1) < 1e-9
        tr = np.trace(v)
        r_true = float(np.arccosh(max(tr / 2, 1.0)) / 2)
        exact_vac = bool(np.array_equal(v, np.eye(2)))
        if pure_mode and (exact_vac or r_true >= 0.02):
            if bool(isq) != (not exact_vac):
                raise _Fail("gaussian.is_squeezed", "is_squeezed(%d)=%r for a pure mode squeezed by r=%.4g" % (m, isq, r_true))
    sq = pr.call("squeezing", [int(m) for m in modes])
    if len(sq) != len(modes):
        raise _Fail("gaussian.squeezing.length", "squeezing(%r) returned %d entries" % (modes, len(sq)))
    for m, (r, ph) in zip(modes, sq):
        i = o.idx([m])
        vm = np.real(o.Vs[0][np.ix_(i, i)])
        v = vm / (h / 2)
        if abs(np.linalg.det(v) - 1) > 1e-9:
            continue  # reduced mode is mixed: (r, phi) is not defined
        exact_vac = bool(np.array_equal(v, np.eye(2)))
        r_true = float(np.arccosh(max(np.trace(v) / 2, 1.0)) / 2)
        if not (exact_vac or r_true >= 0.02):
            continue
        pr.labels.add("squeezing_judged")
        rec = squeezed_cov(float(r), float(ph), h)
        if not np.all(np.isfinite(rec)) or float(np.max(np.abs(rec - vm))) > 1e-7 * (1 + float(np.max(np.abs(vm)))):
            ph_true = float(np.arctan2(-2 * v[0, 1], v[1, 1] - v[0, 0]))
            if abs(float(r) - r_true) < 1e-7 and abs(math.sin(ph) - math.sin(ph_true)) < 1e-6 and math.cos(ph) * math.cos(ph_true) < 0:
                raise _Fail("gaussian_squeezing_phase_folded", "squeezing([%d]) = (%.6g, %.6g) for a mode squeezed by (r, phi) = (%.6g, %.6g): "
                            "phi is folded into [-pi/2, pi/2] (arcsin), the returned pair describes a different state" % (m, r, ph, r_true, ph_true))
            raise _Fail("gaussian.squeezing", "squeezing([%d]) = (%r, %r) does not reproduce the covariance of the mode %s" % (m, r, ph, _short(vm)))
    al = pr.call("squeezing")
    if len(al) != o.n:
        raise _Fail("gaussian.squeezing.length", "squeezing() returned %d entries for %d modes" % (len(al), o.n))
    one = pr.call("squeezing", int(modes[-1]))  # "modes (int or Sequence[int])"
    if len(one) != 1 or not _same(np.array(one[0], float), np.array(sq[-1], float)):
        raise _Fail("gaussian.squeezing.int", "squeezing(%d) = %r, squeezing(%r)[-1] = %r" % (modes[-1], one, modes, sq[-1]))


SIG_CPLX = "bosonic_fock_basis_wrong_for_complex_means"


def _complex_means(o):
    return bool(np.any(np.abs(o.mus.imag) > 1e-12))


def _f30_prob(o, pat, got, order):
    """the value thewalrus returns when fed the oracle's moments re-ordered by `order` (xpxp: what F30 predicts; identity:
    thewalrus itself on complex means)"""
    from thewalrus.quantum import density_matrix_element

    try:
        tot = 0.0
        for w, mu, V in zip(o.w, o.mus, o.Vs):
            tot += w * density_matrix_element(mu[order], V[np.ix_(order, order)], list(pat), list(pat), hbar=o.h)
        return abs(complex(tot).real - float(got)) < 1e-8
    except Exception:  # pylint: disable=broad-except
        return False


def _f30_dm(o, modes, D, got, xpxp):
    from thewalrus.quantum import density_matrix

    try:
        r = o.reduced(modes)
        order = _xpxp(r.n) if xpxp else list(range(2 * r.n))
        tot = 0.0
        for w, mu, V in zip(r.w, r.mus, r.Vs):
            tot = tot + w * density_matrix(mu[order], V[np.ix_(order, order)], cutoff=D, hbar=o.h, normalize=False)
        return np.asarray(tot).shape == np.asarray(got).shape and float(np.max(np.abs(tot - got))) < 1e-7
    except Exception:  # pylint: disable=broad-except
        return False


def _f29_pred(o, modes, D, got):
    from thewalrus.quantum import state_vector

    try:
        r = o.reduced(modes)
        psi = state_vector(np.real(r.mus[0]), np.real(r.Vs[0]), cutoff=D, hbar=o.h, normalize=True, check_purity=False)
        pred = fockref.ket_to_dm(np.asarray(psi).reshape((D,) * r.n))
        return pred.shape == np.asarray(got).shape and float(np.max(np.abs(pred - got))) < 1e-7
    except Exception:  # pylint: disable=broad-except
        return False


# =================================================================================================
# checks of a BaseFockState ("F": tensor data, "K": ket data) against exact formulas on the tensor rho
# =================================================================================================
def check_fock_object(pr, rho, n, h, a, R):
    rep = pr.rep
    D = rho.shape[0]
    modes = a["modes"]
    srt = sorted(modes)
    T = TIGHT

    # ---- data access --------------------------------------------------------------------------
    got = np.asarray(pr.call("dm"))
    _cmp("fock.dm", got, rho, 1e-12, "dm()")
    ket = pr.call("ket")
    if rep == "K":
        if ket is None:
            raise _Fail("fock.ket.none_for_pure", "ket() of a pure state is None")
        _cmp("fock.ket", fockref.ket_to_dm(np.asarray(ket)), rho, 1e-12)
    elif ket is not None:
        raise _Fail("fock.ket.not_none_for_mixed", "ket() of a mixed-representation state is not None")
    tr = fockref.trace(rho, n)
    P = fockref.probs(rho, n)
    _cmp("fock.trace", pr.call("trace"), tr, T)
    ap = np.asarray(pr.call("all_fock_probs"))
    _cmp("fock.all_fock_probs", ap, P, T)
    _cmp("fock.trace_vs_probs", pr.call("trace"), float(np.sum(ap)), T)
    pat = a["pat"]
    got = pr.call("fock_prob", list(pat))
    _cmp("fock.fock_prob", got, P[tuple(pat)], T, "fock_prob(%r)" % (pat,))
    _cmp("fock.fock_prob_vs_all_fock_probs", got, ap[tuple(pat)], T)
    R["fock_prob"] = got
    if not pr.rejects("fock_prob", [D] + [0] * (n - 1)):
        raise _Fail("fock.fock_prob.beyond_cutoff_accepted", "fock_prob with a photon number == cutoff did not raise ValueError")

    # ---- photon statistics for the requested subset / order ------------------------------------------
    for m in modes:
        got = _real(pr.call("mean_photon", int(m)), "fock.mean_photon")
        _cmp("fock.mean_photon", got, fk_number(rho, n, [m]), T, "mean_photon(%d)" % m)
        R["mean_photon", m] = got
        R["number_expectation", (m,)] = got
    for md in ([modes] if modes == srt else [modes, srt]):
        got = _real(pr.call("number_expectation", [int(m) for m in md]), "fock.number_expectation")
        _cmp("fock.number_expectation", got, fk_number(rho, n, md), T, "number_expectation(%r)" % (md,))
        gp = pr.call("parity_expectation", [int(m) for m in md])
        _cmp("fock.parity_expectation", gp, fk_parity(rho, n, md), T, "parity_expectation(%r)" % (md,))
    if len(modes) >= 2:
        R["number_expectation", (modes[0], modes[1])] = _real(pr.call("number_expectation", [int(modes[0]), int(modes[1])]), "fock.number_expectation")
    R["parity_expectation", tuple(srt)] = gp
    vals = a["dvals"][0] + a["dvals"][1] * np.arange(D) + a["dvals"][2] * np.arange(D) ** 2
    got = pr.call("diagonal_expectation", [int(m) for m in modes], vals.copy())
    _cmp("fock.diagonal_expectation", got, fk_diag(rho, n, modes, vals), T, "diagonal_expectation(%r, c0+c1 n+c2 n^2)" % (modes,))
    if len(modes) >= 2 and not pr.rejects("number_expectation", [int(modes[0]), int(modes[0])]):
        raise _Fail("fock.number_expectation.duplicates_accepted", "duplicate modes did not raise ValueError")

    # ---- reduced density matrices ---------------------------------------------------------------
    got = _modes_call(pr, "reduced_dm", modes, "fock.reduced_dm")
    if got is not None:
        _cmp("fock.reduced_dm", got, fockref.reduce_dm(rho, n, modes), T, "reduced_dm(%r)" % (modes,))
        R["reduced_dm"] = np.asarray(got)
    m0 = modes[0]
    r1 = fockref.reduce_dm(rho, n, [m0])
    _cmp("fock.reduced_dm.int", pr.call("reduced_dm", int(m0)), r1, T)

    # ---- quadratures --------------------------------------------------------------------------
    for m in modes:
        got = _real(pr.call("quad_expectation", int(m), a["phi"]), "fock.quad_expectation")
        _cmp("fock.quad_expectation", got, fk_quad(rho, n, m, a["phi"], h), T, "quad_expectation(%d, %r)" % (m, a["phi"]))
        R["quad_expectation", m] = got
    _cmp("fock.quad_expectation.default", _real(pr.call("quad_expectation", int(m0)), "fock.quad_expectation"), fk_quad(rho, n, m0, 0.0, h), T)
    if a.get("polyquad"):
        ps0 = PS([1], [np.zeros(2 * n)], [np.eye(2 * n)], h)
        A2, d2 = ps0.rotated(a["A"], a["d"], a["pq_phi"])
        exp = fk_poly(rho, n, A2, d2, a["k0"], h)
        got = _real(pr.call("poly_quad_expectation", a["A"].copy(), a["d"].copy(), a["k0"], phi=a["pq_phi"], once_=a.get("polyquad_heavy", False)), "fock.poly_quad_expectation")
        _cmp("fock.poly_quad_expectation.mean", got[0], exp[0], T * 100, "poly_quad_expectation mean (phi=%r)" % a["pq_phi"])
        R["poly_quad_expectation"] = got
        if a.get("polyquad_var_exact"):
            _cmp("fock.poly_quad_expectation.var", got[1], exp[1], T * 100, "poly_quad_expectation var (phi=%r)" % a["pq_phi"])
        if rep == "F":
            dd = np.zeros(2 * n)
            dd[m0] = 1.0
            got = _real(pr.call("poly_quad_expectation", None, dd, 0, phi=a["phi"]), "fock.poly_quad_expectation")
            _cmp("fock.poly_quad_vs_quad_expectation.mean", got[0], fk_quad(rho, n, m0, a["phi"], h)[0], T * 100)
        if abs(tr - 1) < 1e-7:  # documented defaults A -> 0, d -> 0: the constant polynomial k has mean k and no variance
            got = _real(pr.call("poly_quad_expectation", None, None, a["k0"], phi=a["pq_phi"]), "fock.poly_quad_expectation")
            _cmp("fock.poly_quad_expectation.constant", got, (a["k0"], 0.0), 1e-6, "poly_quad_expectation(None, None, k)")
        pr.labels.add("fock_polyquad")

    # ---- Wigner function ----------------------------------------------------------------------
    xs, ps_ = a["xs"], a["ps"]
    W = _real(pr.call("wigner", int(m0), xs.copy(), ps_.copy()), "fock.wigner")
    if W.shape != (len(ps_), len(xs)):
        raise _Fail("fock.wigner.layout", "wigner(xvec[%d], pvec[%d]) has shape %r, expected W[p_index, x_index]" % (len(xs), len(ps_), W.shape))
    exp = np.array([[fk_wigner_point(r1, x, p, h) for x in xs] for p in ps_])
    _cmp("fock.wigner", W, exp, 1e-7, "wigner(%d) vs (1/pi hbar) int dy e^{2ipy/hbar} <x-y|rho|x+y>" % m0)
    R["wigner"] = W
    w00 = _real(pr.call("wigner", int(m0), np.array([0.0]), np.array([0.0])), "fock.wigner")
    _cmp("fock.parity_vs_wigner_origin", pr.call("parity_expectation", [int(m0)]), np.pi * h * float(w00[0, 0]), T)
    if a.get("quadgrid_fock") and a["quadvals"]:
        qg = a["quadgrid_fock"][m0]
        xq = _real(pr.call("x_quad_values", int(m0), qg["xc"].copy(), qg["pf"].copy()), "fock.x_quad_values")
        pq = _real(pr.call("p_quad_values", int(m0), qg["xf"].copy(), qg["pc"].copy()), "fock.p_quad_values")
        _cmp_pdf("fock.x_quad_values", xq, fk_quadpdf(r1, qg["xc"], 0.0, h), "x_quad_values(%d)" % m0)
        _cmp_pdf("fock.p_quad_values", pq, fk_quadpdf(r1, qg["pc"], np.pi / 2, h), "p_quad_values(%d)" % m0)

    # ---- fidelities ---------------------------------------------------------------------------
    fv = _real(pr.call("fidelity_vacuum"), "fock.fidelity_vacuum")
    _cmp("fock.fidelity_vacuum_vs_fock_prob0", fv, P[(0,) * n], T)
    _cmp("fock.fidelity_vacuum_vs_coherent0", fv, _real(pr.call("fidelity_coherent", [0.0] * n), "fock.fidelity_coherent"), T)
    fc = _real(pr.call("fidelity_coherent", list(a["alphas"])), "fock.fidelity_coherent")
    _cmp("fock.fidelity_coherent", fc, fk_fid_product(rho, n, [coh_vec(al, D) for al in a["alphas"]]), T, "fidelity_coherent(%r)" % (a["alphas"],))
    R["fidelity_vacuum"], R["fidelity_coherent"] = fv, fc
    if not pr.rejects("fidelity_coherent", [0.0] * (n + 1)):
        raise _Fail("fock.fidelity_coherent.wrong_length_accepted", "alpha_list of length n+1 did not raise ValueError")
    okv, om = a["other_ket"], a["other"][2]
    got = _real(pr.call("fidelity", okv.copy(), int(om)), "fock.fidelity")
    ro = fockref.reduce_dm(rho, n, [om])
    _cmp("fock.fidelity", got, float(np.real(np.conj(okv) @ ro @ okv)), T, "fidelity(ket, %d)" % om)
    R["fidelity"] = got


# =================================================================================================
# sub-check gauss_tri
# =================================================================================================
@st.composite
def cov_low(draw, n):
    """low-energy covariance (hbar=2 units): squeezing <= 0.25, thermal occupation <= 0.15"""
    kind = draw(st.sampled_from(["pure_generic", "mixed_generic", "pure_blockdiag", "mixed_diag", "pure_generic", "mixed_generic"]))
    nb = np.zeros(n)
    if kind.startswith("mixed"):
        nb = np.array(draw(gen.thermal_list(n, 0.15)))
    Dm = np.diag(np.concatenate([2 * nb + 1, 2 * nb + 1]))
    if kind.endswith("generic"):
        S = draw(gen.symplectic(n, 0.25, ["generic"]))[2]
    elif kind == "mixed_diag":
        r = np.array(draw(gen.squeezing_list(n, 0.25)))
        S = np.diag(np.concatenate([np.exp(-r), np.exp(r)]))
    else:
        r = np.array(draw(gen.squeezing_list(n, 0.25)))
        th = np.array(draw(st.lists(gen.angle(), min_size=n, max_size=n)))
        S = gen.orth_symplectic(np.diag(np.exp(1j * th))) @ np.diag(np.concatenate([np.exp(-r), np.exp(r)]))
    V = S @ Dm @ S.T
    return kind, (V + V.T) / 2


@st.composite
def method_args(draw, n, pat_max=3):
    perm = list(draw(st.permutations(list(range(n)))))
    k = draw(st.integers(1, n))
    act = sorted(draw(st.permutations(list(range(n))))[: draw(st.integers(1, min(n, 2)))])
    dact = sorted(draw(st.permutations(list(range(n))))[: draw(st.integers(1, min(n, 2)))])
    if n == 3 and draw(st.integers(0, 7)) == 0:
        act = [0, 1, 2]
    cf = st.one_of(st.just(0.0), gen.fl(-1.0, 1.0), gen.fl(-1.0, 1.0))
    ia = [m for m in act] + [m + n for m in act]
    A = np.zeros((2 * n, 2 * n))
    for u in ia:
        for v in ia:
            if u <= v:
                A[u, v] = A[v, u] = draw(cf)
    d = np.zeros(2 * n)
    for u in [m for m in dact] + [m + n for m in dact]:
        d[u] = draw(cf)
    if not A.any() and not d.any():
        A[ia[0], ia[0]] = 1.0
    return {
        "modes": perm[:k],
        "phi": draw(gen.angle()),
        "pat": draw(st.lists(st.integers(0, pat_max), min_size=n, max_size=n)),
        "alphas": [[draw(gen.fl(-0.6, 0.6)), draw(gen.fl(-0.6, 0.6))] for _ in range(n)],
        "grid": {"nx": draw(st.integers(2, 4)), "dn": draw(st.integers(1, 2)), "x0": draw(gen.fl(-2.0, 2.0)), "p0": draw(gen.fl(-2.0, 2.0)),
                 "dx": draw(gen.fl(0.2, 1.0)), "dp": draw(gen.fl(0.2, 1.0))},
        "A": A.tolist(), "d": d.tolist(), "k0": draw(st.one_of(st.just(0.0), gen.fl(-1.0, 1.0))),
        "pq_phi": draw(st.one_of(st.just(0.0), gen.angle())),
        "other": {"r": draw(gen.fl(0.0, 0.3)), "th": draw(gen.angle()), "a": [draw(gen.fl(-0.5, 0.5)), draw(gen.fl(-0.5, 0.5))], "mode": draw(st.integers(0, n - 1))},
        "dvals": [draw(gen.fl(-1.0, 1.0)), draw(gen.fl(-1.0, 1.0)), draw(gen.fl(-1.0, 1.0))],
        "quadvals": draw(st.integers(0, 3)) == 0,  # x_quad_values / p_quad_values (slow: ~70 scipy simpson calls each)
    }


def hbar_call(hbar):
    """value of the GLOBAL sf.hbar while the methods are called.  A state object keeps "the value of hbar used in the generation of the
    state" (BaseState.hbar); its answers may not depend on what the global is changed to afterwards.  1/3 of the cases change it."""
    others = [x for x in HBARS if x != hbar]
    return st.integers(0, 5).map(lambda i: float(hbar) if i < 4 else float(others[i - 4]))


def _set_call_hbar(case, labels):
    import strawberryfields as sf

    hc = float(case.get("hbar_call", case["hbar"]))
    if hc != float(case["hbar"]):
        labels.add("global_hbar_changed_after_construction")
    sf.hbar = hc


@st.composite
def tri_case(draw):
    n = draw(st.sampled_from([1, 2, 2, 3, 3]))
    hbar = draw(st.sampled_from(HBARS))
    energy = draw(st.sampled_from(["std", "low", "low"]))
    if energy == "std":
        kind, V = draw(gen.covariance(n, 2.0))
    else:
        kind, V = draw(cov_low(n))
    disp = draw(st.sampled_from(["none", "small", "small", "large"]))
    amp = {"none": 0.0, "small": 0.6, "large": 2.0}[disp]
    mu = [0.0] * (2 * n) if disp == "none" else [draw(gen.fl(-amp, amp)) for _ in range(2 * n)]
    V = np.asarray(V)
    if n >= 2 and draw(st.integers(0, 3)) > 0:  # extra passive mixing: keeps the kind (pure/mixed), correlates the modes
        O = gen.orth_symplectic(draw(gen.unitary(n, ["haar", "orth", "haar"]))[1])
        V = O @ V @ O.T
        V = (V + V.T) / 2
        kind += "+mixed_modes"
    case = {"n": n, "hbar": hbar, "hbar_call": draw(hbar_call(hbar)), "kind": kind, "energy": energy, "disp": disp, "mu2": mu, "V2": V.tolist()}
    case.update(draw(method_args(n, 3 if n < 3 else 2)))
    return case


def _decode_args(case, n, h):
    g = case["grid"]
    sc = np.sqrt(h / 2)
    a = {
        "modes": [int(m) for m in case["modes"]], "phi": float(case["phi"]), "pat": [int(x) for x in case["pat"]],
        "alphas": [complex(x, y) for x, y in case["alphas"]],
        "xs": sc * (g["x0"] + g["dx"] * np.arange(g["nx"])), "ps": sc * (g["p0"] + g["dp"] * np.arange(g["nx"] + g["dn"])),
        "A": np.array(case["A"], float), "d": np.array(case["d"], float), "k0": float(case["k0"]), "pq_phi": float(case["pq_phi"]),
        "dvals": [float(x) for x in case["dvals"]], "soft": [], "quadvals": bool(case.get("quadvals", True)),
    }
    ot = case["other"]
    al = complex(*ot["a"])
    a["other"] = (np.sqrt(2 * h) * np.array([al.real, al.imag]), squeezed_cov(ot["r"], ot["th"], h), int(ot["mode"]))
    return a


def _quadgrid(mx, sx, mp, sp, step_x, step_p):
    """coarse evaluation points (9, +-2.5 sigma) and fine integration grids (+-6.5 sigma, odd number of points)"""
    def fine(m, s_, step):
        k = int(np.ceil(13.0 * s_ / step))
        k = min(k + 1 - k % 2, 801)
        return m + s_ * np.linspace(-6.5, 6.5, k)
    return {"xc": mx + sx * np.linspace(-2.5, 2.5, 9), "pc": mp + sp * np.linspace(-2.5, 2.5, 9), "xf": fine(mx, sx, step_x), "pf": fine(mp, sp, step_p)}


def _int_grids(mu, V, n, cap=np.inf):
    """Simpson step: 1/5 of the marginal width and 1/4 of the conditional width of the Gaussian (and at most `cap`: the Wigner
    function of a tensor truncated at D has structure on the scale sqrt(hbar / D))"""
    out = {}
    for m in range(n):
        vx, vp, c = V[m, m], V[m + n, m + n], V[m, m + n]
        det = vx * vp - c * c
        sx, sp = np.sqrt(vx), np.sqrt(vp)
        out[m] = _quadgrid(mu[m], sx, mu[m + n], sp, min(0.2 * sx, 0.25 * np.sqrt(det / vp), cap), min(0.2 * sp, 0.25 * np.sqrt(det / vx), cap))
    return out


CUTOFFS = {1: [10, 16, 22], 2: [8, 11, 14], 3: [6, 7, 8]}
# cross-representation tolerance  1e-6 + C * edge, where edge = weight of the thewalrus tensor at photon numbers >= cutoff-2 in
# any mode plus the weight above the cutoff.  C = >= 10x the largest |difference| / edge seen on ~4700 calibration / soak cases
# (mean, variance): mean_photon (4.6, 60), number_expectation (4.7, 490), quad_expectation (1.9, 6.8), poly_quad_expectation (10.8, 195);
# parity 0.13, fidelity 1.1, fidelity_coherent 0.05, reduced_dm 0.07, fock_prob / fidelity_vacuum exact
_CROSS = {"mean_photon": (100.0, 1000.0), "number_expectation": (100.0, 10000.0), "quad_expectation": (30.0, 100.0), "poly_quad_expectation": (200.0, 3000.0),
          "parity_expectation": 5.0, "wigner": None, "fidelity_vacuum": 1.0, "fidelity_coherent": 5.0, "fidelity": 20.0, "fock_prob": 1.0, "reduced_dm": 1.0}
EDGE_MAX = 1e-4


def _cross_tol(key, edge, tail, h):
    """scalar tolerance, or (tol_mean, tol_var) for the (mean, variance) pairs"""
    if key == "wigner":  # rigorous: |W_trunc - W| <= ||P rho P - rho||_1 / (pi hbar) <= 2 sqrt(tail) / (pi hbar)
        return 1e-6 + 2 * np.sqrt(max(tail, 0.0)) / (np.pi * h)
    c = _CROSS[key]
    if isinstance(c, tuple):
        return (1e-6 + c[0] * edge, 1e-6 + c[1] * edge)
    return 1e-6 + c * edge


def _choose_cutoff(mu, V, n, h):
    best = None
    for D in CUTOFFS[n]:
        tl = 0.0
        for m in range(n):
            i = [m, m + n]
            p = np.real(np.diag(gauss_tensor(mu[i], V[np.ix_(i, i)], D, h)))
            tl += 1.0 - float(np.sum(p))
        best = D
        if tl < 1e-7:
            break
    return best


def _corr(V, n):
    """largest inter-mode correlation coefficient"""
    best = 0.0
    for a_ in range(2 * n):
        for b_ in range(2 * n):
            if a_ % n != b_ % n:
                best = max(best, abs(V[a_, b_]) / np.sqrt(V[a_, a_] * V[b_, b_]))
    return best


def check_tri(ctx, case):
    import strawberryfields as sf

    old = sf.hbar
    soft = []
    try:
        sf.hbar = case["hbar"]
        try:
            _check_tri(ctx, case, soft)
        except _Fail as f:
            soft.append((f.sig, f.detail))
        except _Crash as c:
            for sg, dt in soft:
                ctx.fail(sg, dt)
            return ctx.crash(c.exc, c.what)
        for sg, dt in soft:
            ctx.fail(sg, dt)
        return None
    finally:
        sf.hbar = old


def _check_tri(ctx, case, soft):
    from thewalrus.quantum import state_vector
    from strawberryfields.backends.states import BaseBosonicState, BaseFockState, BaseGaussianState

    n, h = int(case["n"]), float(case["hbar"])
    mu2, V2 = np.array(case["mu2"], float), np.array(case["V2"], float)
    mu, V = mu2 * np.sqrt(h / 2), V2 * (h / 2)
    o = PS([1.0], [mu], [V], h)
    purity = o.purity()
    pure = purity > 1 - 1e-9
    a = _decode_args(case, n, h)
    a["soft"] = soft
    a["pure"] = pure if (pure or purity < 1 - 1e-6) else None
    modes = a["modes"]
    corr = _corr(V, n) if n > 1 else 0.0
    labels = {"hbar:%s" % h, "n:%d" % n, "kind:" + case["kind"], "pure" if pure else "mixed"}
    if np.any(mu2 != 0):
        labels.add("displaced")
    if len(modes) < n:
        labels.add("subset")
    if modes != sorted(modes):
        labels.add("reordered")
    if corr > 1e-3:
        labels.add("correlated")
    nontrivial = n >= 2 and corr > 1e-3 and (len(modes) < n or modes != list(range(n)))
    if pure and len(modes) < n:  # the two branches of BaseGaussianState.reduced_dm for a pure state
        ii = o.idx(sorted(modes))
        labels.add("pure_state_subset_" + ("pure" if abs(np.linalg.det(V2[np.ix_(ii, ii)]) - 1) < 1e-9 else "mixed"))

    # ---- oracle data shared by the representations ---------------------------------------------------
    D = _choose_cutoff(mu, V, n, h)
    cs = {1: D, 2: 6, 3: 4}[n]
    a["D"], a["cs"] = D, cs
    rho = gauss_tensor(mu, V, D, h)
    tail = 1.0 - fockref.trace(rho, n)
    edge = max(0.0, 1.0 - float(np.sum(fockref.probs(rho, n)[(slice(0, D - 2),) * n])))
    a["quadgrid"] = _int_grids(mu, V, n)
    a["quadgrid_fock"] = _int_grids(mu, V, n, 0.4 * np.sqrt(h / D)) if edge < EDGE_MAX else None
    red_cache = {}

    def red(md):
        key = tuple(md)
        if key not in red_cache:
            r = o.reduced(md)
            red_cache[key] = gauss_tensor(np.real(r.mus[0]), np.real(r.Vs[0]), D, h)
        return red_cache[key]

    rs = red(sorted(modes))
    pd_ = fockref.probs(rs, len(modes))
    sgn = np.ones(pd_.shape)
    for ax in range(len(modes)):
        sh = [1] * len(modes)
        sh[ax] = D
        sgn = sgn * ((-1.0) ** np.arange(D)).reshape(sh)
    pat = a["pat"]
    a["fx"] = {"tol": TIGHT, "red": red, "prob_pat": float(rho[tuple(x for q in pat for x in (q, q))].real), "prob_vac": float(rho[(0,) * (2 * n)].real),
               "full_small": rho[(slice(0, cs),) * (2 * n)], "probs_small": fockref.probs(rho, n)[(slice(0, cs),) * n],
               "parity_dist": (float(np.sum(sgn * pd_)), max(0.0, 1.0 - float(np.sum(pd_))))}
    a["fx"]["red10"] = lambda m: gauss_tensor(mu[[m, m + n]], V[np.ix_([m, m + n], [m, m + n])], 10, h)
    ot = a["other"]
    a["other_ket"] = np.asarray(state_vector(ot[0], ot[1], cutoff=D, hbar=h, normalize=False, check_purity=False)).ravel()
    k_act = len({int(i) % n for i in np.nonzero(a["A"])[0]} | {int(i) % n for i in np.nonzero(a["d"])[0]})
    a["polyquad"] = k_act <= 2 or D <= 6  # the Fock class allocates 6 x (D+1)^6 complex numbers for 3 modes
    a["polyquad_heavy"] = k_act > 2
    a["polyquad_var_exact"] = False

    # ---- the representations ------------------------------------------------------------------------
    G = Probe(BaseGaussianState((mu2.copy(), V2.copy()), n), "G", labels)
    xp = _xpxp(n)
    B = Probe(BaseBosonicState((mu2[xp][None, :].astype(complex), V2[np.ix_(xp, xp)][None, :, :].astype(complex), np.array([1.0 + 0j])), n, 1), "B", labels)
    reps = [("F", Probe(BaseFockState(rho.copy(), n, False, D), "F", labels))]
    if pure:
        psi = np.asarray(state_vector(mu, V, cutoff=D, hbar=h, normalize=False, check_purity=False)).reshape((D,) * n)
        reps.append(("K", Probe(BaseFockState(psi.copy(), n, True, D), "K", labels)))
    cross = edge < EDGE_MAX
    if cross:
        labels.add("cross_fock")
    _set_call_hbar(case, labels)
    ctx.note(case, nontrivial=nontrivial, labels=sorted(labels))

    which = case.get("reps", "GBFK")  # replay files may focus on one representation; generated cases check all
    RG, RB = {}, {}
    if "G" in which:
        check_ps_object(G, o, a, RG)
    if "B" in which:
        check_ps_object(B, o, a, RB)
    _cross("gaussian_vs_bosonic", RG, RB, lambda key: TIGHT)
    for rep, pr in reps:
        if rep not in which:
            continue
        RF = {}
        rr = rho if rep == "F" else fockref.ket_to_dm(pr.s.data)
        check_fock_object(pr, rr, n, h, a, RF)
        if cross:
            _cross("gaussian_vs_" + REPNAME[rep], RG, RF, lambda key: _cross_tol(key, edge, tail, h), edge)
    for lb in sorted(labels):
        if lb.startswith(("m:", "rep:")) or lb in ("unsorted_rejected", "squeezing_judged", "fock_polyquad", "int_mode_arg", "default_cutoff"):
            ctx.label(lb)


def _cross(sig, R1, R2, tolfn, tail=None):
    for key in sorted(set(R1) & set(R2), key=str):
        name = key if isinstance(key, str) else key[0]
        if name not in _CROSS and tail is not None:
            continue
        g1, g2 = _num(R1[key]), _num(R2[key])
        if name == "reduced_dm" and g1.shape == g2.shape:
            k = g1.ndim // 2
            g1 = g1 * fockref.trace(g2, k) / fockref.trace(g1, k)  # the Gaussian class normalises to trace 1, the others do not
        what = "%s %r%s" % (sig, key, "" if tail is None else " (edge weight %.2g)" % tail)
        tol = tolfn(name)
        if isinstance(tol, tuple) and g1.shape == g2.shape == (2,):
            _cmp("%s.%s.mean" % (sig, name), g1[0], g2[0], tol[0], what + " mean")
            _cmp("%s.%s.var" % (sig, name), g1[1], g2[1], tol[1], what + " variance")
        else:
            _cmp("%s.%s" % (sig, name), g1, g2, max(tol) if isinstance(tol, tuple) else tol, what)


# =================================================================================================
# sub-check fock_nongauss: random low-photon kets and two-term mixtures
# =================================================================================================
@st.composite
def fock_case(draw):
    n = draw(st.integers(1, 3))
    D = draw(st.integers(4, 8 if n < 3 else 6))
    hbar = draw(st.sampled_from(HBARS))
    nterms = draw(st.sampled_from([1, 1, 2]))
    top = D - 1 if draw(st.integers(0, 3)) == 0 else D - 2
    terms = []
    for _ in range(nterms):
        comps = []
        for _ in range(draw(st.integers(1, 4))):
            occ = draw(st.lists(st.integers(0, top), min_size=n, max_size=n))
            comps.append([occ, draw(gen.fl(-1.0, 1.0)), draw(gen.fl(-1.0, 1.0))])
        terms.append(comps)
    case = {"n": n, "D": D, "hbar": hbar, "hbar_call": draw(hbar_call(hbar)), "terms": terms, "q": draw(gen.fl(0.05, 0.95))}
    case.update(draw(method_args(n, min(3, D - 1))))
    return case


def _ket_of(comps, n, D):
    psi = np.zeros((D,) * n, complex)
    for occ, re, im in comps:
        psi[tuple(int(x) for x in occ)] += complex(re, im)
    if not np.any(np.abs(psi) > 1e-6):
        psi[tuple(int(x) for x in comps[0][0])] = 1.0
    return psi / np.sqrt(np.real(np.vdot(psi, psi)))


def check_fock(ctx, case):
    import strawberryfields as sf

    old = sf.hbar
    try:
        sf.hbar = case["hbar"]
        try:
            _check_fock(ctx, case)
        except _Fail as f:
            return ctx.fail(f.sig, f.detail)
        except _Crash as c:
            return ctx.crash(c.exc, c.what)
        return None
    finally:
        sf.hbar = old


def _check_fock(ctx, case):
    from thewalrus.quantum import state_vector
    from strawberryfields.backends.states import BaseFockState

    n, D, h = int(case["n"]), int(case["D"]), float(case["hbar"])
    kets = [_ket_of(c, n, D) for c in case["terms"]]
    if len(kets) == 1:
        rho = fockref.ket_to_dm(kets[0])
    else:
        q = float(case["q"])
        rho = q * fockref.ket_to_dm(kets[0]) + (1 - q) * fockref.ket_to_dm(kets[1])
    a = _decode_args(case, n, h)
    modes = a["modes"]
    P = fockref.probs(rho, n)
    occupied = np.argwhere(P > 1e-14)
    L = int(occupied.max()) if occupied.size else 0
    labels = {"hbar:%s" % h, "n:%d" % n, "fock_pure" if len(kets) == 1 else "fock_mixture"}
    if len(modes) < n:
        labels.add("subset")
    if modes != sorted(modes):
        labels.add("reordered")
    nontrivial = len(kets) > 1 or int(np.sum(P > 1e-12)) > 1
    ot = a["other"]
    a["other_ket"] = np.asarray(state_vector(ot[0], ot[1], cutoff=D, hbar=h, normalize=False, check_purity=False)).ravel()
    k_act = len({int(i) % n for i in np.nonzero(a["A"])[0]} | {int(i) % n for i in np.nonzero(a["d"])[0]})
    a["polyquad"] = k_act <= 2 or D <= 5
    a["polyquad_heavy"] = k_act > 2
    a["polyquad_var_exact"] = L <= D - 2
    ext = (np.sqrt(2.0 * D) + 4.5) * np.sqrt(h)
    a["quadgrid_fock"] = {m: {"xc": np.linspace(-0.6 * ext, 0.6 * ext, 9), "pc": np.linspace(-0.6 * ext, 0.6 * ext, 9),
                              "xf": np.linspace(-ext, ext, 201), "pf": np.linspace(-ext, ext, 201)} for m in range(n)}
    a["pat"] = [min(x, D - 1) for x in a["pat"]]
    reps = [Probe(BaseFockState(rho.copy(), n, False, D), "F", labels)]
    if len(kets) == 1:
        reps.append(Probe(BaseFockState(kets[0].copy(), n, True, D), "K", labels))
    _set_call_hbar(case, labels)
    ctx.note(case, nontrivial=nontrivial, labels=sorted(labels))
    Rs = []
    for pr in reps:
        R = {}
        check_fock_object(pr, rho, n, h, a, R)
        Rs.append(R)
    if len(Rs) == 2:
        _cross("fock_tensor_vs_ket", Rs[0], Rs[1], lambda key: TIGHT)
    for lb in sorted(labels):
        if lb.startswith(("m:", "rep:")) or lb in ("unsorted_rejected", "fock_polyquad"):
            ctx.label(lb)
    if a["polyquad"] and a["polyquad_var_exact"]:
        ctx.label("fock_polyquad_var_exact")


# =================================================================================================
# sub-check bosonic_cat: a four-Gaussian cat state, alone or next to a Gaussian mode
# =================================================================================================
@st.composite
def cat_case(draw):
    n = draw(st.integers(1, 2))
    hbar = draw(st.sampled_from(HBARS))
    case = {"n": n, "hbar": hbar, "hbar_call": draw(hbar_call(hbar)), "a": draw(gen.fl(0.3, 1.3)), "theta": draw(gen.angle()),
            "cphi": draw(st.one_of(st.sampled_from([0.0, gen.PI]), gen.fl(0.0, 2 * gen.PI))), "catpos": draw(st.integers(0, n - 1))}
    if n == 2:
        kind, V = draw(cov_low(1))
        case["partner"] = {"kind": kind, "V2": np.asarray(V).tolist(), "mu2": [draw(gen.fl(-0.6, 0.6)), draw(gen.fl(-0.6, 0.6))]}
    case.update(draw(method_args(n, 3)))
    return case


def check_cat(ctx, case):
    import strawberryfields as sf

    old = sf.hbar
    soft = []
    try:
        sf.hbar = case["hbar"]
        try:
            _check_cat(ctx, case, soft)
        except _Fail as f:
            soft.append((f.sig, f.detail))
        except _Crash as c:
            return ctx.crash(c.exc, c.what)
        seen = set()
        for sg, dt in soft:  # open findings are counted once per case, anything else raises
            if sg not in seen:
                seen.add(sg)
                ctx.fail(sg, dt)
        return None
    finally:
        sf.hbar = old


def _check_cat(ctx, case, soft):
    from strawberryfields.backends.states import BaseBosonicState

    n, h = int(case["n"]), float(case["hbar"])
    D = 18
    aa, th, cphi, cp = float(case["a"]), float(case["theta"]), float(case["cphi"]), int(case["catpos"])
    w, cm, cv = cat_ps(aa, th, cphi, h)
    rho_cat = fockref.ket_to_dm(cat_ket(aa, th, cphi, D))
    if n == 1:
        mus, Vs, rho = cm, cv, rho_cat
    else:
        pm = np.array(case["partner"]["mu2"], float) * np.sqrt(h / 2)
        pv = np.array(case["partner"]["V2"], float) * (h / 2)
        rho_p = gauss_tensor(pm, pv, D, h)
        mus = np.zeros((4, 4), complex)
        Vs = np.zeros((4, 4, 4), complex)
        ic, ip = ([0, 2], [1, 3]) if cp == 0 else ([1, 3], [0, 2])
        for k in range(4):
            mus[k, ic], mus[k, ip] = cm[k], pm
            Vs[k][np.ix_(ic, ic)], Vs[k][np.ix_(ip, ip)] = cv[k], pv
        rho = np.einsum("ab,cd->abcd", rho_cat, rho_p) if cp == 0 else np.einsum("ab,cd->abcd", rho_p, rho_cat)
    o = PS(w, mus, Vs, h)
    tail = 1.0 - fockref.trace(rho, n)
    a = _decode_args(case, n, h)
    a["soft"] = soft
    modes = a["modes"]
    labels = {"hbar:%s" % h, "n:%d" % n, "cat"}
    if len(modes) < n:
        labels.add("subset")
    if modes != sorted(modes):
        labels.add("reordered")
    if tail > 1e-8:
        ctx.note(case, False, ["cat_truncation_dominated"])
        return
    Dr, cs = (10, 10) if n == 1 else (7, 5)
    a["D"], a["cs"] = Dr, cs
    a["pure"] = None
    a["quadgrid"] = {}
    for m in range(n):  # interference fringes: step sigma/20
        (mx, vx), (mp, vp) = o.quad(m, 0.0), o.quad(m, np.pi / 2)
        a["quadgrid"][m] = _quadgrid(mx, np.sqrt(vx), mp, np.sqrt(vp), 0.05 * np.sqrt(vx), 0.05 * np.sqrt(vp))
    pat = a["pat"]
    rs = fockref.reduce_dm(rho, n, sorted(modes))
    pd_ = fockref.probs(rs, len(modes))
    sgn = np.ones(pd_.shape)
    for ax in range(len(modes)):
        sh = [1] * len(modes)
        sh[ax] = D
        sgn = sgn * ((-1.0) ** np.arange(D)).reshape(sh)
    a["fx"] = {"tol": 1e-7, "red": lambda md: fockref.reduce_dm(rho, n, md)[(slice(0, Dr),) * (2 * len(md))],
               "prob_pat": float(rho[tuple(x for q_ in pat for x in (q_, q_))].real), "prob_vac": float(rho[(0,) * (2 * n)].real),
               "full_small": rho[(slice(0, cs),) * (2 * n)],
               "parity_dist": (float(np.sum(sgn * pd_)), 1e-7)}
    xp = _xpxp(n)
    B = Probe(BaseBosonicState((o.mus[:, xp] / np.sqrt(h / 2), o.Vs[:, xp][:, :, xp] / (h / 2), o.w.copy()), n, 4), "B", labels)
    _set_call_hbar(case, labels)
    ctx.note(case, nontrivial=True, labels=sorted(labels))
    R = {}
    check_ps_object(B, o, a, R)
    # the bosonic answers against exact Fock-space formulas on the ket-derived tensor (same truncation model as gauss_tri)
    edge = max(0.0, 1.0 - float(np.sum(fockref.probs(rho, n)[(slice(0, D - 2),) * n])))
    def tol(key):
        t = _cross_tol(key, edge, tail, h)
        return 1e-7 + (max(t) if isinstance(t, tuple) else t) - 1e-6

    for m in modes:
        _cmp("bosonic_vs_fock_oracle.mean_photon", R["mean_photon", m], fk_number(rho, n, [m]), tol("mean_photon"), "cat: mean_photon(%d)" % m)
        _cmp("bosonic_vs_fock_oracle.quad_expectation", R["quad_expectation", m], fk_quad(rho, n, m, a["phi"], h), tol("quad_expectation"), "cat: quad_expectation(%d)" % m)
    _cmp("bosonic_vs_fock_oracle.parity_expectation", R["parity_expectation", tuple(sorted(modes))], fk_parity(rho, n, modes), tol("parity_expectation"))
    r1 = fockref.reduce_dm(rho, n, [modes[0]])
    expw = np.array([[fk_wigner_point(r1, x, p_, h) for x in a["xs"]] for p_ in a["ps"]])
    _cmp("bosonic_vs_fock_oracle.wigner", R["wigner"], expw, tol("wigner"), "cat: wigner(%d)" % modes[0])
    _cmp("bosonic_vs_fock_oracle.fidelity_coherent", R["fidelity_coherent"], fk_fid_product(rho, n, [coh_vec(al, D) for al in a["alphas"]]), tol("fidelity_coherent"))
    _cmp("bosonic_vs_fock_oracle.fidelity_vacuum", R["fidelity_vacuum"], float(rho[(0,) * (2 * n)].real), tol("fidelity_vacuum"))
    for lb in sorted(labels):
        if lb.startswith(("m:", "rep:")) or lb in ("unsorted_rejected", "int_mode_arg", "default_cutoff"):
            ctx.label(lb)


# =================================================================================================
# sub-check bosonic_mix: a statistical mixture of 2..3 DIFFERENT Gaussian states (own covariance, own means, own
# inter-mode correlations per weight) as one BaseBosonicState.  Every per-weight loop of the class (covs[i], mus[i],
# weights[i]) is exercised with terms that differ in every ingredient; the cat state has four identical covariances
# and a product partner, the one-weight states of gauss_tri have no sum at all.
# =================================================================================================
MIX_D = {1: 14, 2: 9, 3: 6}


@st.composite
def mix_case(draw):
    n = draw(st.sampled_from([1, 2, 2, 3]))
    hbar = draw(st.sampled_from(HBARS))
    K = draw(st.sampled_from([2, 2, 3]))
    share = draw(st.sampled_from(["none", "none", "none", "means", "cov"]))  # only the covariances / only the means differ
    comps = []
    for j in range(K):
        kind, V = draw(cov_low(n))
        V = np.asarray(V)
        if n >= 2 and draw(st.integers(0, 3)) > 0:
            O = gen.orth_symplectic(draw(gen.unitary(n, ["haar", "orth", "haar"]))[1])
            V = O @ V @ O.T
            V = (V + V.T) / 2
            kind += "+mixed_modes"
        mu = [draw(gen.fl(-0.8, 0.8)) for _ in range(2 * n)]
        if j > 0 and share == "means":
            mu = comps[0]["mu2"]
        if j > 0 and share == "cov":
            kind, V = comps[0]["kind"], np.asarray(comps[0]["V2"])
        comps.append({"kind": kind, "q": draw(gen.fl(0.2, 1.0)), "mu2": list(mu), "V2": V.tolist()})
    case = {"n": n, "hbar": hbar, "hbar_call": draw(hbar_call(hbar)), "share": share, "comps": comps}
    case.update(draw(method_args(n, 3 if n < 3 else 2)))
    return case


def _mix_grids(o, n):
    """Simpson grids for a mixture: the range covers +-6.5 sigma of every term, the step resolves the narrowest term
    (1/5 of its marginal, 1/4 of its conditional width); evaluation points: +-2.5 sigma of the whole mixture"""
    out = {}
    for m in range(n):
        lo, hi, st_ = [np.inf, np.inf], [-np.inf, -np.inf], [np.inf, np.inf]
        for mu, V in zip(np.real(o.mus), np.real(o.Vs)):
            vx, vp, c = V[m, m], V[m + n, m + n], V[m, m + n]
            det = vx * vp - c * c
            for ax, (mean, var, cond) in enumerate(((mu[m], vx, det / vp), (mu[m + n], vp, det / vx))):
                lo[ax] = min(lo[ax], mean - 6.5 * np.sqrt(var))
                hi[ax] = max(hi[ax], mean + 6.5 * np.sqrt(var))
                st_[ax] = min(st_[ax], 0.2 * np.sqrt(var), 0.25 * np.sqrt(cond))
        g = {}
        for ax, (nm_, phi) in enumerate((("x", 0.0), ("p", np.pi / 2))):
            mean, var = o.quad(m, phi)
            k = int(np.ceil((hi[ax] - lo[ax]) / st_[ax]))
            k = min(k + 1 - k % 2, 801)
            g[nm_ + "c"] = mean + np.sqrt(var) * np.linspace(-2.5, 2.5, 9)
            g[nm_ + "f"] = np.linspace(lo[ax], hi[ax], k)
        out[m] = g
    return out


def check_mix(ctx, case):
    import strawberryfields as sf

    old = sf.hbar
    try:
        sf.hbar = case["hbar"]
        try:
            _check_mix(ctx, case)
        except _Fail as f:
            return ctx.fail(f.sig, f.detail)
        except _Crash as c:
            return ctx.crash(c.exc, c.what)
        return None
    finally:
        sf.hbar = old


def _check_mix(ctx, case):
    from strawberryfields.backends.states import BaseBosonicState

    n, h = int(case["n"]), float(case["hbar"])
    comps = case["comps"]
    K = len(comps)
    q = np.array([float(c["q"]) for c in comps])
    w = q / np.sum(q)
    mus2 = np.array([c["mu2"] for c in comps], float)
    Vs2 = np.array([c["V2"] for c in comps], float)
    mus, Vs = mus2 * np.sqrt(h / 2), Vs2 * (h / 2)
    o = PS(w, mus, Vs, h)
    a = _decode_args(case, n, h)
    soft = a["soft"] = []
    a["pure"] = None
    modes = a["modes"]
    D = MIX_D[n]
    cs = {1: D, 2: 6, 3: 4}[n]
    a["D"], a["cs"] = D, cs
    rho = sum(w[k] * gauss_tensor(mus[k], Vs[k], D, h) for k in range(K))
    tail = 1.0 - fockref.trace(rho, n)
    edge = max(0.0, 1.0 - float(np.sum(fockref.probs(rho, n)[(slice(0, D - 2),) * n])))
    labels = {"hbar:%s" % h, "n:%d" % n, "mix", "mix:K%d" % K, "mix_share:" + str(case.get("share", "none"))}
    if len(modes) < n:
        labels.add("subset")
    if modes != sorted(modes):
        labels.add("reordered")
    dV = max(float(np.max(np.abs(Vs2[k] - Vs2[0]))) for k in range(1, K))
    dM = max(float(np.max(np.abs(mus2[k] - mus2[0]))) for k in range(1, K))
    if dV > 1e-3:
        labels.add("mix_distinct_covs")
    if dM > 1e-3:
        labels.add("mix_distinct_means")
    corr = max(_corr(Vs[k], n) for k in range(K)) if n > 1 else 0.0
    if corr > 1e-3:
        labels.add("mix_correlated")
    red_cache = {}

    def red(md):
        key = tuple(md)
        if key not in red_cache:
            r = o.reduced(md)
            red_cache[key] = sum(w[k] * gauss_tensor(np.real(r.mus[k]), np.real(r.Vs[k]), D, h) for k in range(K))
        return red_cache[key]

    rs = red(sorted(modes))
    pd_ = fockref.probs(rs, len(modes))
    sgn = np.ones(pd_.shape)
    for ax in range(len(modes)):
        sh = [1] * len(modes)
        sh[ax] = D
        sgn = sgn * ((-1.0) ** np.arange(D)).reshape(sh)
    pat = a["pat"]
    a["fx"] = {"tol": TIGHT, "red": red, "prob_pat": float(rho[tuple(x for q_ in pat for x in (q_, q_))].real), "prob_vac": float(rho[(0,) * (2 * n)].real),
               "full_small": rho[(slice(0, cs),) * (2 * n)],
               "parity_dist": (float(np.sum(sgn * pd_)), max(0.0, 1.0 - float(np.sum(pd_))))}
    a["fx"]["red10"] = lambda m: sum(w[k] * gauss_tensor(mus[k][[m, m + n]], Vs[k][np.ix_([m, m + n], [m, m + n])], 10, h) for k in range(K))
    a["quadgrid"] = _mix_grids(o, n)
    xp = _xpxp(n)
    B = Probe(BaseBosonicState((mus2[:, xp].astype(complex), Vs2[:, xp][:, :, xp].astype(complex), w.astype(complex)), n, K), "B", labels)
    cross = edge < EDGE_MAX
    if cross:
        labels.add("mix_cross_fock")
    _set_call_hbar(case, labels)
    ctx.note(case, nontrivial=dV > 1e-3 or dM > 1e-3, labels=sorted(labels))
    R = {}
    check_ps_object(B, o, a, R)
    for sg, dt in soft:
        raise _Fail(sg, dt)
    if cross:  # the bosonic answers against exact Fock-space formulas on the weighted sum of the thewalrus tensors
        def tol(key):
            return _cross_tol(key, edge, tail, h)

        for m in modes:
            t = tol("mean_photon")
            exp = fk_number(rho, n, [m])
            _cmp("bosonic_vs_fock_oracle.mean_photon.mean", R["mean_photon", m][0], exp[0], t[0], "mixture: mean_photon(%d)[0]" % m)
            _cmp("bosonic_vs_fock_oracle.mean_photon.var", R["mean_photon", m][1], exp[1], t[1], "mixture: mean_photon(%d)[1]" % m)
            t = tol("quad_expectation")
            exp = fk_quad(rho, n, m, a["phi"], h)
            _cmp("bosonic_vs_fock_oracle.quad_expectation.mean", R["quad_expectation", m][0], exp[0], t[0], "mixture: quad_expectation(%d)[0]" % m)
            _cmp("bosonic_vs_fock_oracle.quad_expectation.var", R["quad_expectation", m][1], exp[1], t[1], "mixture: quad_expectation(%d)[1]" % m)
        _cmp("bosonic_vs_fock_oracle.parity_expectation", R["parity_expectation", tuple(sorted(modes))], fk_parity(rho, n, modes), tol("parity_expectation"))
        r1 = fockref.reduce_dm(rho, n, [modes[0]])
        expw = np.array([[fk_wigner_point(r1, x, p_, h) for x in a["xs"]] for p_ in a["ps"]])
        _cmp("bosonic_vs_fock_oracle.wigner", R["wigner"], expw, tol("wigner"), "mixture: wigner(%d)" % modes[0])
        _cmp("bosonic_vs_fock_oracle.fidelity_coherent", R["fidelity_coherent"], fk_fid_product(rho, n, [coh_vec(al, D) for al in a["alphas"]]), tol("fidelity_coherent"))
        _cmp("bosonic_vs_fock_oracle.purity", B.call("purity"), fockref.purity(rho, n), tol("fidelity"), "mixture: purity() vs tr rho^2")
    for lb in sorted(labels):
        if lb.startswith(("m:", "rep:")) or lb in ("unsorted_rejected", "int_mode_arg", "default_cutoff"):
            ctx.label(lb)


# =================================================================================================
# sub-check samples: utils.post_processing
# =================================================================================================
@st.composite
def samples_case(draw):
    shots = draw(st.integers(1, 12))
    m = draw(st.integers(1, 4))
    kind = draw(st.sampled_from(["int", "int", "float"]))
    if kind == "int":
        S = [[draw(st.integers(0, 4)) for _ in range(m)] for _ in range(shots)]
    else:
        S = [[draw(gen.fl(-3.0, 3.0)) for _ in range(m)] for _ in range(shots)]
    modes = draw(st.one_of(st.none(), st.permutations(list(range(m))).flatmap(lambda p: st.integers(1, m).map(lambda k: list(p[:k])))))
    bad = draw(st.sampled_from(["none", "none", "negative", "noninteger", "out_of_range", "empty", "nested", "samples_list", "samples_1d", "samples_3d"]))
    return {"samples": S, "kind": kind, "modes": modes, "bad": bad, "as_array": draw(st.booleans())}


def check_samples(ctx, case):
    from strawberryfields.utils import post_processing as pp

    kind, bad = case["kind"], case["bad"]
    S = np.array(case["samples"], dtype=int if kind == "int" else float)
    shots, m = S.shape
    modes = case["modes"]
    ctx.note(case, nontrivial=True, labels=["samples", "samples:" + kind, "bad:" + bad, "modes_none" if modes is None else "modes_given"])
    S0 = S.copy()
    fns = [("samples_expectation", pp.samples_expectation), ("samples_variance", pp.samples_variance)]
    if bad != "none":
        arg_s, arg_m = S, ([0] if modes is None else list(modes))
        if bad == "negative":
            arg_m = arg_m + [-1]
        elif bad == "noninteger":
            arg_m = arg_m[:-1] + [0.5]
        elif bad == "out_of_range":
            arg_m = arg_m + [m]
        elif bad == "empty":
            arg_m = []
        elif bad == "nested":
            arg_m = [arg_m]
        elif bad == "samples_list":
            arg_s = S.tolist()
        elif bad == "samples_1d":
            arg_s = S[0]
        elif bad == "samples_3d":
            arg_s = S[None]
        for name, fn in fns + ([("all_fock_probs_pnr", lambda s_, m_=None: pp.all_fock_probs_pnr(s_))] if bad.startswith("samples_") else []):
            try:
                res = fn(arg_s, arg_m)
            except (ValueError, TypeError):
                continue
            except Exception as exc:  # pylint: disable=broad-except
                return ctx.fail("post_processing.%s.invalid_input_%s.%s" % (name, bad, type(exc).__name__), "%s raised %s: %s (documented: ValueError)" % (name, type(exc).__name__, exc))
            return ctx.fail("post_processing.%s.invalid_input_accepted.%s" % (name, bad), "%s(samples, %r) returned %r for invalid input (%s)" % (name, arg_m, res, bad))
        return None
    arg_m = None if modes is None else (np.array(modes) if case["as_array"] else list(modes))
    use = list(range(m)) if modes is None else list(modes)
    prod = np.ones(shots)
    for i in use:
        prod = prod * S[:, i]
    exp_mean = float(np.sum(prod) / shots)
    exp_var = float(np.sum((prod - exp_mean) ** 2) / shots)
    try:
        got_mean = pp.samples_expectation(S, arg_m) if modes is not None else pp.samples_expectation(S)
        got_var = pp.samples_variance(S, arg_m) if modes is not None else pp.samples_variance(S)
    except Exception as exc:  # pylint: disable=broad-except
        return ctx.crash(exc, "post_processing")
    sc = 1 + abs(exp_mean) + abs(exp_var)
    if abs(got_mean - exp_mean) > 1e-9 * sc:
        return ctx.fail("post_processing.samples_expectation", "samples_expectation(S, %r) = %r, mean over shots of prod n_i = %r" % (modes, got_mean, exp_mean))
    if abs(got_var - exp_var) > 1e-9 * sc * sc:
        return ctx.fail("post_processing.samples_variance", "samples_variance(S, %r) = %r, expected %r" % (modes, got_var, exp_var))
    if not np.array_equal(S, S0):
        return ctx.fail("post_processing.mutates_samples", "the sample array was changed")
    if kind == "int":
        try:
            Ph = np.asarray(pp.all_fock_probs_pnr(S))
        except Exception as exc:  # pylint: disable=broad-except
            return ctx.crash(exc, "all_fock_probs_pnr")
        Dm = int(S.max()) + 1
        if Ph.shape != (Dm,) * m:
            return ctx.fail("post_processing.all_fock_probs_pnr.shape", "shape %r for %d modes with largest photon number %d" % (Ph.shape, m, Dm - 1))
        exp = np.zeros((Dm,) * m)
        for row in S:
            exp[tuple(int(x) for x in row)] += 1.0 / shots
        if float(np.max(np.abs(Ph - exp))) > 1e-12:
            return ctx.fail("post_processing.all_fock_probs_pnr", "histogram differs from the empirical distribution by %.3g" % float(np.max(np.abs(Ph - exp))))
        # expectation value from the empirical distribution == expectation value from the samples
        tot = 0.0
        for idx in itertools.product(range(Dm), repeat=m):
            tot += Ph[idx] * float(np.prod([idx[i] for i in use]))
        if abs(tot - got_mean) > 1e-9 * sc:
            return ctx.fail("post_processing.expectation_vs_distribution", "sum prod n_i P(n) = %r, samples_expectation = %r" % (tot, got_mean))
    return None


# =================================================================================================
# sub-check backend_state_order: the state returned for a requested subset / order of modes
# =================================================================================================
BSO_ALPHABET = ["BSgate", "BSgate", "Rgate", "S2gate"]


@st.composite
def bso_case(draw):
    """one circuit, one request; the check runs it on the gaussian AND the bosonic backend (cheap) and on one fock flavour, so that every
    variant reaches every backend.state implementation at every seed (a drawn backend x a drawn variant is too sparse for 50 examples)"""
    n = draw(st.sampled_from([3, 3, 4]))
    preps = []
    for j in range(n):
        preps.append(["DisplacedSqueezed", [draw(gen.fl(0.1, 0.5)), draw(gen.angle()), draw(gen.fl(-0.3, 0.3)), draw(gen.angle())], [j], {}])
    gates = draw(gen.op_list(n, BSO_ALPHABET, "fock", 1, 4))
    k = draw(st.integers(1, n))
    order = list(draw(st.permutations(list(range(n))))[:k])
    fock = draw(st.sampled_from(["fock_pure", "fock_mixed"]))
    case = {"n": n, "ops": preps + gates, "order": order, "backend": fock,
            "backends": ["gaussian", "bosonic", "fock_pure", "fock_mixed"] if n == 3 else ["gaussian", "bosonic", fock],
            "via": draw(st.sampled_from(["run", "backend"])), "phi": draw(gen.angle())}
    variant = draw(st.sampled_from(["plain", "del", "int", "segments", "del"]))
    if variant == "del":
        # a register with a gap: one mode is deleted (Del = partial trace), more gates may follow on the survivors; `order` indexes the
        # n-1 remaining modes (comment in GaussianBackend.state: "``modes`` indexes the active modes"; same in FockBackend.state)
        dm = draw(st.integers(0, n - 1))
        active = [m for m in range(n) if m != dm]
        after = draw(gen.op_list(n - 1, BSO_ALPHABET, "fock", 0, 2))
        for sp in after:
            sp[2] = [active[m] for m in sp[2]]
        case["del"], case["ops_after"] = dm, after
        k = draw(st.integers(1, n - 1))
        case["order"] = list(draw(st.permutations(list(range(n - 1))))[:k])
        if draw(st.integers(0, 3)) == 0:
            case["order"] = None
    elif variant == "int":
        case["order"], case["int_mode"], case["via"] = order[:1], True, "backend"  # BaseBackend.state: "modes (int or Sequence[int] or None)"
    elif variant == "segments":
        case["split"] = draw(st.integers(1, len(case["ops"]) - 1))  # two programs on one engine, the state is requested after the second
    # a second request on the same engine whose order is a 3- or 4-cycle (a permutation that is not its own inverse: confusing the
    # permutation with its inverse is invisible for transpositions); a drawn subset / order of 3..4 modes is a cycle too rarely
    nact = n - ("del" in case)
    if nact >= 3:
        keep = sorted(draw(st.permutations(list(range(nact))))[: draw(st.integers(3, nact))])
        r = draw(st.sampled_from([1, len(keep) - 1]))
        case["order2"] = [keep[(i + r) % len(keep)] for i in range(len(keep))]
    return case


def _bso_mode_data(st_, i, phi):
    return np.concatenate([np.array(st_.mean_photon(i), float).ravel(), np.array(st_.quad_expectation(i, phi), float).ravel(),
                           np.array(st_.quad_expectation(i, phi + 1.0), float).ravel()])


def _bso_request(case, be):
    """(order, int_mode) as asked of backend `be`.  Two input classes are withheld (the case file key "no_exclusions" re-enables them):"""
    order, int_mode = case["order"], bool(case.get("int_mode", False))
    if case.get("no_exclusions"):
        return order, int_mode
    # finding F71 (fixed): GaussianBackend.state(modes=<int>) raised "zero-dimensional arrays cannot be concatenated"
    # (BaseBackend.state documents int; the fock and bosonic backends accept it): the gaussian backend is asked with the one-element list
    # (finding F71, fixed: the exclusion is lifted)
    # finding F72 (fixed: a deleted index is refused now; the convention difference stays, see C08 ASSUMPTIONS): BosonicBackend.state(modes=[..]) after a Del indexes the RAW internal modes (returned the
    # deleted mode as a vacuum mode labelled q[<deleted>]) while the gaussian and fock backends index the remaining modes: only modes=None there
    if be == "bosonic" and case.get("del") is not None:
        order = None
    return order, int_mode


def _bso_split(case, be):
    # open finding F10 (listed under C09): BosonicBackend.run_prog calls init_circuit(prog) for every program, so a second eng.run() starts
    # from the vacuum instead of continuing (gaussian / fock continue).  Not a statement of C16: the bosonic backend gets the circuit in one program
    if be == "bosonic" and not case.get("no_exclusions"):
        return None
    return case.get("split")


def check_bso(ctx, case):
    """BaseBackend.state: 'the returned state contains the requested modes in the given order' (bosonic documents ascending order); whatever
    the order, the labels (mode_names) and the data of the returned state must belong together and equal the full state's data for that mode.
    Variants: a deleted mode (gap in the register; the reference is the same circuit without the Del: deleting a mode is a partial trace),
    an int for `modes`, two program segments on one engine, a second request whose order is a 3-/4-cycle; afterwards backend.state() must
    still return the full state (a state request does not change the simulator)."""
    n = case["n"]
    dm, after, split = case.get("del"), case.get("ops_after", []), case.get("split")
    backends = list(case.get("backends", [case["backend"]]))
    labels = ["via:" + case["via"]]
    nreq = 0
    for be in backends:
        order, int_mode = _bso_request(case, be)
        reqs = [list(range(n - (dm is not None))) if order is None else list(order)]
        if case.get("order2") and not (be == "bosonic" and dm is not None and not case.get("no_exclusions")):
            reqs.append(list(case["order2"]))
        labels.append("backend_state:" + be)
        if order is None:
            labels.append("bso:modes_none")
        if int_mode:
            labels.append("bso:int_mode")
        for req in reqs:
            nreq = max(nreq, len(req))
            if req != sorted(req):
                labels.append("reordered")
            rank = list(np.argsort(req))
            if [rank[r] for r in rank] != list(range(len(req))):
                labels.append("non_involutive_order")
                labels.append("non_involutive_order:" + be)
    if dm is not None:
        labels.append("bso:del")
        if after:
            labels.append("bso:gates_after_del")
    if split is not None:
        labels.append("bso:segments")
    ctx.note(case, nontrivial=nreq >= 2 or dm is not None, labels=sorted(set(labels)))
    for be in backends:
        res = _check_bso_one(ctx, case, be)
        if res is not None:
            return res
    return None


def _bso_verify(ctx, case, be, sub, full, order, active):
    """labels and per-mode data of the state `sub` returned for modes=order (None: everything) against the full state"""
    dm = case.get("del")
    req = list(range(len(active))) if order is None else list(order)
    tag = "state(modes=%s)%s" % (order, "" if dm is None else " after Del q[%d]" % dm)
    if sub.num_modes != len(req):
        return ctx.fail("backend_state.num_modes.%s" % be, "%s has %d modes" % (tag, sub.num_modes))
    try:
        names = [int(nm[2:-1]) for nm in [sub.mode_names[i] for i in range(sub.num_modes)]]
    except Exception:  # pylint: disable=broad-except
        return ctx.fail("backend_state.mode_names.%s" % be, "unparsable mode names %r" % (sub.mode_names,))
    want = [active[i] for i in (sorted(req) if be == "bosonic" else req)]
    if names != want:
        return ctx.fail("backend_state.mode_names.%s" % be, "%s is labelled %s, documented order is %s" % (tag, names, want))
    for i, m in enumerate(names):
        for what, fa, fb in (
            ("mean_photon", lambda: sub.mean_photon(i), lambda: full.mean_photon(m)),
            ("quad_expectation", lambda: sub.quad_expectation(i, case["phi"]), lambda: full.quad_expectation(m, case["phi"])),
            ("quad_expectation_p", lambda: sub.quad_expectation(i, case["phi"] + 1.0), lambda: full.quad_expectation(m, case["phi"] + 1.0)),
        ):
            try:
                a, b = np.array(fa(), float), np.array(fb(), float)
            except Exception as exc:  # pylint: disable=broad-except
                return ctx.crash(exc, "state_modes.%s.%s" % (be, what))
            if float(np.max(np.abs(a - b))) > 1e-8 * (1 + float(np.max(np.abs(b)))):
                return ctx.fail("backend_state.data_under_wrong_label.%s" % be, "%s: position %d is labelled q[%d] but its %s is %s; mode %d of the full state has %s" % (
                    tag, i, m, what, np.round(a, 6).tolist(), m, np.round(b, 6).tolist()))
    # one two-mode correlation: <n_i n_j> (not offered by the bosonic state)
    if len(names) >= 2 and be != "bosonic":
        try:
            a = np.array(sub.number_expectation([0, len(names) - 1])[0], float)
            b = np.array(full.number_expectation([names[0], names[-1]])[0], float)
        except Exception as exc:  # pylint: disable=broad-except
            return ctx.crash(exc, "state_modes.%s.number_expectation" % be)
        if abs(a - b) > 1e-8 * (1 + abs(b)):
            return ctx.fail("backend_state.correlation_under_wrong_label.%s" % be, "%s: <n n> of positions (0, %d) = %.8g, of modes (%d, %d) in the full state = %.8g" % (
                tag, len(names) - 1, a, names[0], names[-1], b))
    return None


def _check_bso_one(ctx, case, be):
    import strawberryfields as sf
    from vf import spec

    n = case["n"]
    dm, after, split = case.get("del"), case.get("ops_after", []), _bso_split(case, be)
    order, int_mode = _bso_request(case, be)
    active = [m for m in range(n) if m != dm]
    opts = {"cutoff_dim": 6, "pure": be == "fock_pure"} if be.startswith("fock") else {}
    arg = None if order is None else (int(order[0]) if int_mode else list(order))
    ops_run = list(case["ops"]) + ([["Del", [], [dm], {}]] if dm is not None else []) + list(after)
    try:
        eng = sf.Engine(be.split("_")[0], backend_options=opts)
        full = sf.Engine(be.split("_")[0], backend_options=opts).run(spec.build_program(n, list(case["ops"]) + list(after))).state
        if split is not None:
            eng.run(spec.build_program(n, ops_run[:split]))
            prog = spec.build_program(n, ops_run[split:])
        else:
            prog = spec.build_program(n, ops_run)
        if case["via"] == "run":
            sub = eng.run(prog, modes=arg).state
        else:
            eng.run(prog)
            sub = eng.backend.state(modes=arg)
    except Exception as exc:  # pylint: disable=broad-except
        return ctx.crash(exc, "state_modes." + be)
    res = _bso_verify(ctx, case, be, sub, full, order, active)
    if res is not None:
        return res
    # a state request must not change the simulator: the same request again and the request for everything still give the same data
    try:
        rep_ = eng.backend.state(modes=arg)
        again = eng.backend.state()
        bad = None
        if [rep_.mode_names[i] for i in range(rep_.num_modes)] != [sub.mode_names[i] for i in range(sub.num_modes)]:
            bad = "the second state(modes=%s) is labelled %r, the first %r" % (order, rep_.mode_names, sub.mode_names)
        elif again.num_modes != len(active) or [again.mode_names[i] for i in range(again.num_modes)] != ["q[%d]" % m for m in active]:
            bad = "state() after state(modes=%s) is labelled %r, active modes %s" % (order, again.mode_names, active)
        elif not _same(rep_.data, sub.data):
            bad = "the second state(modes=%s) does not carry the same data as the first" % (order,)
        else:
            for i, m in sorted({(0, active[0]), (len(active) - 1, active[-1])}):
                a, b = _bso_mode_data(again, i, case["phi"]), _bso_mode_data(full, m, case["phi"])
                if float(np.max(np.abs(a - b))) > 1e-8 * (1 + float(np.max(np.abs(b)))):
                    bad = "state() after state(modes=%s): q[%d] has (mean_photon, quad..) %s, before %s" % (order, m, np.round(a, 6).tolist(), np.round(b, 6).tolist())
    except Exception as exc:  # pylint: disable=broad-except
        return ctx.crash(exc, "state_modes.%s.second_request" % be)
    if bad:
        return ctx.fail("backend_state.changed_by_state_request.%s" % be, bad)
    # second request on the same engine: a cyclic order
    if case.get("order2") and not (be == "bosonic" and dm is not None and not case.get("no_exclusions")):
        try:
            sub2 = eng.backend.state(modes=list(case["order2"]))
        except Exception as exc:  # pylint: disable=broad-except
            return ctx.crash(exc, "state_modes.%s.cyclic_order" % be)
        return _bso_verify(ctx, case, be, sub2, full, list(case["order2"]), active)
    return None


SUBS = [
    Sub("gauss_tri", check=check_tri, strategy=lambda ctx: tri_case(), examples={"quick": 180, "thorough": 2500}, shards={"quick": 4, "thorough": 16},
        budget={"quick": 100, "thorough": 1500}, rule="one Gaussian state as gaussian / bosonic / fock object: every method vs oracle and across representations"),
    Sub("fock_nongauss", check=check_fock, strategy=lambda ctx: fock_case(), examples={"quick": 250, "thorough": 3000}, shards={"quick": 1, "thorough": 8},
        budget={"quick": 100, "thorough": 1500}, rule="random low-photon kets / two-term mixtures as fock objects (ket and tensor data) vs exact Fock formulas"),
    Sub("bosonic_cat", check=check_cat, strategy=lambda ctx: cat_case(), examples={"quick": 200, "thorough": 2000}, shards={"quick": 1, "thorough": 8},
        budget={"quick": 100, "thorough": 1500}, rule="cat state (4 complex-weighted Gaussians), alone or beside a Gaussian mode, vs four-Gaussian formulas and the exact ket"),
    Sub("bosonic_mix", check=check_mix, strategy=lambda ctx: mix_case(), examples={"quick": 250, "thorough": 2500}, shards={"quick": 1, "thorough": 8},
        budget={"quick": 100, "thorough": 1500}, rule="mixture of 2..3 different Gaussian states (own covariance, means, correlations per weight; 1..3 modes) as one "
        "bosonic object vs weighted phase-space formulas and the weighted sum of the thewalrus tensors"),
    Sub("backend_state_order", check=check_bso, strategy=lambda ctx: bso_case(), examples={"quick": 40, "thorough": 1200}, shards={"quick": 3, "thorough": 16},
        budget={"quick": 100, "thorough": 900}, rule="eng.run(prog, modes=order) / backend.state(modes=order) on fock (pure, mixed), gaussian, bosonic for any subset and "
        "order of 3..4 modes (3-cycles included): labels follow the documented order and per-mode data / a two-mode correlation equal those of the full state"),
    Sub("samples", check=check_samples, strategy=lambda ctx: samples_case(), examples={"quick": 1500, "thorough": 20000}, shards={"quick": 1, "thorough": 4},
        budget={"quick": 100, "thorough": 600}, rule="samples_expectation / samples_variance / all_fock_probs_pnr vs numpy formulas, invalid input rejected"),
]

MANIFEST = {
    "technique": "Hypothesis differential / metamorphic testing of state objects built directly in three representations against closed-form phase-space and exact Fock-space oracles",
    "text": ("Generated Gaussian states (1-3 modes, pure/mixed, displaced, correlated, three hbar values) are instantiated directly as BaseGaussianState, "
             "one-weight BaseBosonicState and BaseFockState (thewalrus tensor and ket); generated non-Gaussian Fock kets/mixtures and hand-built cat states cover "
             "the representation-specific code. Every public observable is compared with an oracle typed in the harness (moments of quadrature polynomials with "
             "operator-ordering term, parity, overlaps, Wigner integrals, partial traces), with the other methods of the same object, and with the same method of "
             "the other representations under a truncation guard; mode subsets and orders are generator axes; every call is made twice and the state's arrays are "
             "compared bit-wise afterwards. Mixtures of different Gaussian states exercise the weighted sums of the bosonic class; backend.state is asked for subsets, "
             "cyclic orders, after a mode deletion, with an int, twice; the global hbar is changed after construction. "
             "utils.post_processing is compared with direct numpy formulas. Exploration only: <= 3 modes (backend.state: 4), cutoff <= 22."),
    "note": "trusted: numpy/scipy, thewalrus.quantum.density_matrix/state_vector as Fock representation of Gaussian moments (layout self-tested)",
}
