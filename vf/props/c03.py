"""C03 - circuit optimisation never changes what a program computes.

Oracles
  (a) Gaussian programs: refsim map (X, Y, d) of the source == refsim map of ``prog.optimize().circuit`` and of
      ``prog.compile(compiler=c, optimize=True).circuit`` (all input states at once).
  (b) non-Gaussian one-mode families (Kgate, Vgate) and MSgate: states of source vs optimised program on the fock
      (bounded-photon random Ket) resp. bosonic backend.
  (c) immutability: deep snapshot of the source program before == after optimize() / compile(optimize=True) / running
      the optimised copy.
  (d) structure: the optimised circuit is never longer than the source.
"""
from __future__ import annotations

import numpy as np
from hypothesis import strategies as st

from vf import fockref, gen, refsim, sfrun, spec
from vf.core import Sub

RULE = ("programs of 1..4 modes built from blocks of 2..3 same-family operations on the same wire (generic / inverse / "
        "daggered / equal / non-mergeable second parameter / nearly-inverse first and nearly-equal second parameters), interleaved "
        "with commands on other wires; every one-mode Gate, Channel, Preparation and 1x1 Decomposition family; free symbolic "
        "parameters (first and second parameters, the same symbol in both operations, scaled/negated symbols, channel "
        "transmissions); operation objects shared by several commands; compile(shots=.., backend options); non-trivial = the "
        "optimised circuit is shorter than the source (a merge or cancellation really happened)")
ASSUMPTIONS = [
    "Gaussian maps compared at 1e-9 absolute (hbar=2); fock states at 1e-9 (Kgate on bounded-photon kets is exact), Vgate 1e-7",
    "refsim encodes the documented maps (self-tested)",
    "two-mode families are never merged by the optimiser (documented todo); they are generated to check they are left alone",
    "nearly cancelling pairs leave a residual of 1e-4..1e-7 (first parameter, transmission, matrix product) resp. differ by that much "
    "in the second parameter: 100x..1e5x above the comparison tolerance, so a wrongly cancelled/merged pair is visible",
    "symbols t, u (channel transmission / nbar) are bound in [0.1, 1]; a, b in [-0.8, 0.8]",
    "pairs of 1x1 GraphEmbed and of one-mode Ggate are NOT generated (audit findings graphembed-pair, ggate-pair: out/audit/C03-*.json); "
    "the replay of the GraphEmbed case reads GraphEmbed through the library's own unoptimised 'gaussian' decomposition on both sides",
]
REQUIRED_LABELS = {"all": ["merged", "merge_to_identity", "dagger_pair", "channel_merge", "fourier_pair", "prep_pair",
                           "symbolic_param_merge", "family:Sgate", "family:LossChannel", "family:Kgate",
                           "shared_op", "compile_kwargs", "rel:near_inverse", "rel:second_nearly_equal", "rel:sym_same", "rel:sym_second"]}

RELS = ["generic", "inverse", "dagger", "equal", "second_differs", "triple", "inverse_second_differs", "dagger_second_differs",
        # audit additions
        "near_inverse", "second_nearly_equal", "second_nearly_equal", "generic_dagger", "sym_same", "sym_second", "sym_second"]
NEAR_EPS = [1e-4, 1e-6, 1e-7, -1e-6, -1e-7]          # residual of a nearly cancelling pair (well above the 1e-9 oracle tolerance)
BIND_DEFAULT = {"a": 0.0, "b": 0.0, "t": 0.5, "u": 0.75}   # t, u: symbols used as channel transmissions / nbar (bound in (0, 1])

ONE_MODE_G = ["Dgate", "Xgate", "Zgate", "Sgate", "Pgate", "Rgate", "Fouriergate"]
TWO_MODE_G = ["BSgate", "S2gate", "MZgate", "sMZgate", "CXgate", "CZgate"]
CHAN = ["LossChannel", "ThermalLossChannel", "PassiveChannel1"]
PREP = ["Vacuum", "Coherent", "Squeezed", "Thermal", "DisplacedSqueezed"]
DECOMP = ["Interferometer1", "GaussianTransform1"]


def selftest():
    refsim.selftest()


# ---------------------------------------------------------------------------------------------
@st.composite
def block(draw, n, families, energy="ps", allow_free=False):
    fam = draw(st.sampled_from(families))
    two = fam in TWO_MODE_G
    if two and n < 2:
        fam, two = "Sgate", False
    modes = list(draw(st.permutations(list(range(n))))[: 2 if two else 1])
    rel = draw(st.sampled_from(RELS))
    if allow_free and rel == "second_nearly_equal" and fam not in ("Dgate", "Sgate", "ThermalLossChannel", "BSgate", "S2gate", "MZgate", "sMZgate"):
        # the relation needs a family with a second parameter; mostly a one-mode one, where a merge is possible at all
        fam, two, modes = draw(st.sampled_from(["Dgate", "Sgate", "ThermalLossChannel"])), False, modes[:1]
    out = []

    def mk(params, H=False):
        return [fam.rstrip("1") if fam.endswith("1") else fam, params, modes, {"H": True} if H else {}]

    def cm(z):
        return spec.enc_matrix(np.array([[complex(z)]]))

    if fam in ("PassiveChannel1", "Interferometer1", "GaussianTransform1", "GraphEmbed1", "Ggate1"):
        # matrix families know three relations only: about a quarter of the blocks each for inverse / near_inverse
        rel = ("inverse" if rel in ("inverse", "dagger", "equal", "inverse_second_differs") else
               "near_inverse" if rel in ("near_inverse", "dagger_second_differs", "sym_same", "sym_second") else "generic")
    if fam == "PassiveChannel1":
        t1 = draw(gen.fl(0.2, 1.0)) * np.exp(1j * draw(gen.angle()))
        t2 = draw(gen.fl(0.2, 1.0)) * np.exp(1j * draw(gen.angle()))
        if rel in ("inverse", "near_inverse"):
            t1 = np.exp(1j * draw(gen.angle()))
            t2 = np.conj(t1)
        if rel == "near_inverse":
            # the product is within 1e-4..1e-7 of the identity but is NOT the identity: must be kept
            t2 = t2 * (1.0 - abs(draw(st.sampled_from(NEAR_EPS))))
        return [mk([cm(t1)]), mk([cm(t2)])], fam, rel
    if fam == "Interferometer1":
        a, b = draw(gen.angle()), draw(gen.angle())
        if rel in ("inverse", "near_inverse"):
            b = -a
        if rel == "near_inverse":
            b = b + draw(st.sampled_from(NEAR_EPS))
        return [mk([cm(np.exp(1j * a))]), mk([cm(np.exp(1j * b))])], fam, rel
    if fam == "GaussianTransform1":
        R = lambda t: np.array([[np.cos(t), -np.sin(t)], [np.sin(t), np.cos(t)]])  # noqa: E731

        def symp():
            th, r, ph = draw(gen.angle()), draw(gen.fl(-0.5, 0.5)), draw(gen.angle())
            return R(th) @ np.diag([np.exp(-r), np.exp(r)]) @ R(ph)
        S1 = symp()
        S2 = np.linalg.inv(S1) if rel in ("inverse", "near_inverse") else symp()
        if rel == "near_inverse":
            S2 = S2 @ R(draw(st.sampled_from(NEAR_EPS)))
        return [mk([spec.enc_matrix(S1)]), mk([spec.enc_matrix(S2)])], fam, rel
    if fam == "GraphEmbed1":
        # 1x1 adjacency matrices (two graph embeddings in a row on one mode)
        x1, x2 = draw(gen.fl(0.1, 0.9)), draw(gen.fl(0.1, 0.9))
        return [mk([spec.enc_matrix(np.array([[x1]]))]), mk([spec.enc_matrix(np.array([[x2]]))])], fam, rel
    if fam == "Ggate1":
        # general one-mode Gaussian gate G(S, d): a Gate whose first parameter is a matrix
        def sd():
            th, r = draw(gen.angle()), draw(gen.fl(-0.5, 0.5))
            S = np.array([[np.cos(th), -np.sin(th)], [np.sin(th), np.cos(th)]]) @ np.diag([np.exp(-r), np.exp(r)])
            return [spec.enc_matrix(S), spec.enc_vec([draw(gen.fl(-1.0, 1.0)), draw(gen.fl(-1.0, 1.0))])]
        g1, g2 = sd(), sd()
        if draw(st.booleans()):
            g2[1] = g1[1]
        return [mk(g1), mk(g2)], fam, rel
    if fam in PREP:
        return [mk(draw(gen.op_params(fam, energy))), [draw(st.sampled_from(PREP)), None, modes, {}]], fam, "prep_pair"
    p1 = draw(gen.op_params(fam, energy))
    if fam == "Fouriergate":
        k = 3 if rel == "triple" else 2
        hs = [draw(st.booleans()) for _ in range(k)]
        if rel == "dagger":
            hs = [False, True]
        return [mk([], h) for h in hs], fam, "fourier_pair"
    p2 = draw(gen.op_params(fam, energy))
    p2[1:] = p1[1:]
    h1 = h2 = False
    if allow_free and fam in CHAN and rel in ("sym_same", "sym_second", "generic_dagger", "dagger_second_differs", "inverse_second_differs"):
        rel = "sym_channel"      # (the dagger relations mean nothing for a channel)
    elif rel in ("sym_same", "sym_second"):
        if not allow_free:
            rel = "generic_dagger"
        elif len(p1) == 1:
            rel = "sym_same"
    if rel == "inverse" and fam not in CHAN:
        p2[0] = -p1[0]
    elif rel == "inverse":
        p1[0] = 1.0
        p2[0] = 1.0
    elif rel == "dagger" and fam not in CHAN:
        p2[0] = p1[0]
        h2 = True
        if draw(st.booleans()):
            h1, h2 = True, False
    elif rel == "equal":
        p2[0] = p1[0]
        h1 = h2 = draw(st.booleans()) if fam not in CHAN else False
    elif rel == "second_differs" and len(p1) > 1:
        p2[1] = p1[1] + 0.3
    elif rel == "inverse_second_differs" and len(p1) > 1 and fam not in CHAN:
        # first parameters cancel exactly but the phases differ: NOT the identity, must not be merged away
        p2[0] = -p1[0]
        p2[1] = p1[1] + draw(st.sampled_from([0.3, 1.3, np.pi / 2]))
    elif rel == "dagger_second_differs" and len(p1) > 1 and fam not in CHAN:
        p2[0] = p1[0]
        p2[1] = p1[1] + draw(st.sampled_from([0.3, 1.7]))
        h2 = True
    elif rel == "near_inverse" and fam not in CHAN:
        # the pair cancels up to a residual of 1e-4..1e-7: a gate with that parameter must remain
        eps = draw(st.sampled_from(NEAR_EPS))
        if draw(st.booleans()):
            p2[0] = -p1[0] + eps
        else:
            p2[0] = p1[0] + eps
            h2 = True
    elif rel == "near_inverse":
        # channels: the merged transmission is 1 - (1e-4..1e-7), not the identity channel
        p1[0] = draw(st.sampled_from([1.0, 1.0, 1.0 - 1e-7]))
        p2[0] = 1.0 - abs(draw(st.sampled_from(NEAR_EPS)))
    elif rel == "second_nearly_equal" and len(p1) > 1:
        # the other parameters differ by 1e-4..1e-7 only: still not the same family member, adding p[0] is wrong.
        # First parameters are kept away from the neutral element (there the second parameter does not matter).
        for p in (p1, p2):
            if fam in CHAN and not 0.05 <= p[0] <= 0.95:
                p[0] = 0.5
            elif fam not in CHAN and abs(p[0]) < 0.05:
                p[0] = 0.4
        if draw(st.booleans()):
            p1[1] = draw(gen.fl(0.3, 3.0))
        p2[1] = p1[1] + abs(draw(st.sampled_from(NEAR_EPS)))
        if fam not in CHAN:
            k = draw(st.integers(0, 2))
            if k == 1:
                p2[0] = -p1[0]
            elif k == 2:
                p2[0] = p1[0]
                h2 = True
    elif rel == "generic_dagger" and fam not in CHAN:
        h1, h2 = draw(st.booleans()), draw(st.booleans())
    elif rel == "sym_same":
        # the same free symbol in both operations (a, 2a, -a, a/2): sums that cancel or simplify symbolically
        a = ["free", "a"]
        e1 = draw(st.sampled_from([a, ["mul", 2.0, a], ["neg", a]]))
        e2 = draw(st.sampled_from([a, ["neg", a], e1, ["neg", e1], ["mul", 0.5, a]]))
        p1[0], p2[0] = e1, e2
        h1, h2 = draw(st.booleans()), draw(st.booleans())
    elif rel == "sym_second":
        # symbolic second parameters: the same symbol (mergeable) or different symbols / a negated symbol (not mergeable)
        p1[1] = ["free", "b"]
        p2[1] = draw(st.sampled_from([["free", "b"], ["free", "b"], ["free", "a"], ["neg", ["free", "b"]]]))
        k = draw(st.integers(0, 2))
        if k == 1:
            p2[0] = -p1[0]
        elif k == 2:
            p2[0] = p1[0]
            h2 = True
    elif rel == "sym_channel":
        # symbolic transmissions (t, u are bound in (0, 1]) and, for the thermal loss channel, a symbolic nbar
        p1[0] = ["free", "t"]
        p2[0] = draw(st.sampled_from([["free", "t"], ["free", "u"], p2[0]]))
        if len(p1) > 1 and draw(st.booleans()):
            p1[1] = ["free", "u"]
            p2[1] = draw(st.sampled_from([["free", "u"], ["free", "u"], ["free", "t"]]))
    if allow_free and fam not in CHAN and not rel.startswith("sym") and rel not in ("near_inverse", "second_nearly_equal") and draw(st.integers(0, 3)) == 0:
        # free symbolic first parameters: ["free", name]; values are bound from case["bind"]
        p1[0] = ["free", "a"]
        if draw(st.booleans()):
            p2[0] = ["free", "b"]
        rel = "symbolic"
    out = [mk(p1, h1), mk(p2, h2)]
    if rel == "triple":
        p3 = draw(gen.op_params(fam, energy))
        p3[1:] = p1[1:]
        out.append(mk(p3, draw(st.booleans()) if fam not in CHAN else False))
    return out, fam, rel


@st.composite
def gauss_case(draw):
    n = draw(st.integers(1, 4))
    # "GraphEmbed1" (findings F62, fixed: two 1x1 GraphEmbed in a row were merged by multiplying the adjacency matrices); "Ggate1" is left out:
    # the gaussian / fock / bosonic compilers cannot run it (TF backend only) and F63 (optimize() raised ValueError on a pair) is pinned by a replay
    fams = ONE_MODE_G + ONE_MODE_G + TWO_MODE_G + CHAN + PREP + DECOMP + ["GraphEmbed1"]
    blocks = [draw(block(n, fams, "ps", allow_free=True)) for _ in range(draw(st.integers(1, 4)))]
    # interleave: ops of a block stay in order; between them ops of other blocks may appear
    seqs = [b[0] for b in blocks]
    order = []
    for i, s in enumerate(seqs):
        order += [i] * len(s)
    order = list(draw(st.permutations(order)))
    pos = [0] * len(seqs)
    ops_ = []
    for i in order:
        ops_.append(seqs[i][pos[i]])
        pos[i] += 1
    for o in ops_:
        if o[1] is None:
            o[1] = draw(gen.op_params(o[0], "ps"))
    # operation objects shared by several commands (g = Sgate(r); g | q[0]; g | q[1]; g | q[0]): the op spec flagged
    # {"share": u} re-uses the object built for the earlier spec flagged {"tag": u}, on the same or on other modes
    for u in range(draw(st.sampled_from([0, 0, 1, 1, 2]))):
        j = draw(st.integers(0, len(ops_) - 1))
        srcop = ops_[j]
        tag = srcop[3].get("share", srcop[3].get("tag", u))
        if "share" not in srcop[3]:
            srcop[3] = dict(srcop[3], tag=tag)
        modes = list(srcop[2]) if draw(st.booleans()) else list(draw(st.permutations(list(range(n))))[: len(srcop[2])])
        flags = {k: v for k, v in srcop[3].items() if k != "tag"}
        flags["share"] = tag
        at = draw(st.sampled_from([j + 1, j + 1, len(ops_)])) if draw(st.booleans()) else draw(st.integers(j + 1, len(ops_)))
        ops_.insert(at, [srcop[0], srcop[1], modes, flags])
    bind = {"a": draw(gen.fl(-0.8, 0.8)), "b": draw(gen.fl(-0.8, 0.8)), "t": draw(gen.fl(0.1, 1.0)), "u": draw(gen.fl(0.1, 1.0))}
    targets = ["none", "gaussian", "gaussian", "fock", "bosonic"]
    if any(b[1] in DECOMP for b in blocks):
        # every compiler decomposes these before it optimises: Decomposition.merge is reached by Program.optimize() only
        targets = ["none", "none", "none"] + targets
    # keyword arguments of compile() next to optimize=True: run options (shots) and backend options end up in the compiled copy only
    ckw = draw(st.sampled_from([{}, {}, {"shots": 3}, {"shots": 2, "cutoff_dim": 6}, {"warn_connected": False}]))
    return {"n": n, "ops": ops_, "bind": bind, "fams": sorted({b[1] for b in blocks}), "rels": sorted({b[2] for b in blocks}),
            "target": draw(st.sampled_from(targets)), "ckw": ckw}


def _ev(p, bind):
    """value of a symbolic parameter AST (["free", name] | ["neg", x] | ["mul", x, y] | ["add", x, y]) under the binding"""
    if isinstance(p, list) and p and isinstance(p[0], str):
        if p[0] == "free":
            return bind[p[1]]
        if p[0] == "neg":
            return -_ev(p[1], bind)
        if p[0] == "mul":
            return _ev(p[1], bind) * _ev(p[2], bind)
        if p[0] == "add":
            return _ev(p[1], bind) + _ev(p[2], bind)
        raise ValueError("unknown parameter expression %r" % (p,))
    return p


def _numeric(ops_, bind):
    out = []
    for o in ops_:
        out.append([o[0], [_ev(p, bind) for p in o[1]], o[2], o[3] if len(o) > 3 else {}])
    return out


def _build(case):
    import strawberryfields as sf

    prog = sf.Program(case["n"])
    syms = {}

    def sym(ast):
        if not isinstance(ast, list):
            return ast
        if ast[0] == "free":
            name = ast[1]
            if name not in syms:
                syms[name] = prog.params(name)
            return syms[name]
        if ast[0] == "neg":
            return -sym(ast[1])
        if ast[0] == "mul":
            return sym(ast[1]) * sym(ast[2])
        if ast[0] == "add":
            return sym(ast[1]) + sym(ast[2])
        raise ValueError("unknown parameter expression %r" % (ast,))

    from strawberryfields import ops

    built = {}
    with prog.context as q:
        for o in case["ops"]:
            flags = o[3] if len(o) > 3 else {}
            if flags.get("share") is not None and flags["share"] in built:
                op = built[flags["share"]]          # the very same Operation object once more
            else:
                op = spec.make_op(ops, o[0], o[1], flags, sym)
            if flags.get("tag") is not None:
                built[flags["tag"]] = op
            regs = tuple(q[m] for m in o[2])
            op | (regs if len(regs) > 1 else regs[0])
    return prog, syms


def _specs_bound(prog, circuit, bind):
    """numeric specs of a circuit after binding the free parameters"""
    prog.bind_params({k: v for k, v in bind.items() if k in prog.free_params})
    return spec.circuit_to_specs(circuit)


def _ref_specs(progobj, bind):
    """numeric specs of a program's circuit; GraphEmbed (whose phase-space map refsim does not encode) is read through the
    library's own unoptimised decomposition, on both sides of the comparison (the decomposition itself is C02's subject)"""
    circuit = progobj.circuit
    if any(c.op.__class__.__name__ == "GraphEmbed" for c in circuit):
        circuit = progobj.compile(compiler="gaussian", optimize=False).circuit
    return _specs_bound(progobj, circuit, bind)


def check_gauss(ctx, case):
    import warnings

    from strawberryfields.program_utils import CircuitError

    n, bind = case["n"], dict(BIND_DEFAULT, **case["bind"])
    ckw = dict(case.get("ckw") or {})
    has_ge = any(o[0] == "GraphEmbed" for o in case["ops"])
    doc = None if has_ge else spec.ref_run(n, _numeric(case["ops"], bind), 2.0)
    prog, syms = _build(case)
    before = spec.snapshot(prog)
    labels = ["family:" + f.rstrip("1") for f in case["fams"]] + ["rel:" + r for r in case["rels"]]
    if "dagger" in case["rels"]:
        labels.append("dagger_pair")
    if "fourier_pair" in case["rels"]:
        labels.append("fourier_pair")
    if "prep_pair" in case["rels"]:
        labels.append("prep_pair")
    if any((o[3] if len(o) > 3 else {}).get("share") is not None for o in case["ops"]):
        labels.append("shared_op")
    if ckw and case["target"] != "none":
        labels.append("compile_kwargs")
    with warnings.catch_warnings():
        warnings.simplefilter("ignore")
        try:
            if case["target"] == "none":
                opt = prog.optimize()
                plain_len = len(prog.circuit)
            else:
                opt = prog.compile(compiler=case["target"], optimize=True, **ckw)
                plain = prog.compile(compiler=case["target"], optimize=False, **ckw)
                plain_len = len(plain.circuit)
        except CircuitError:
            ctx.note(case, False, ["rejected:" + case["target"]])
            return None
        except Exception as exc:  # pylint: disable=broad-except
            ctx.note(case, True, labels)
            return ctx.crash(exc, "optimize")
    merged = len(opt.circuit) < plain_len
    if merged:
        labels.append("merged")
        if any(r in ("inverse", "dagger") for r in case["rels"]):
            labels.append("merge_to_identity")
        if any(f in CHAN for f in case["fams"]):
            labels.append("channel_merge")
        if syms:
            labels.append("symbolic_param_merge")
    ctx.note(case, nontrivial=merged, labels=labels)
    if len(opt.circuit) > plain_len:
        return ctx.fail("optimize.grew", "optimised circuit has %d commands, unoptimised %d" % (len(opt.circuit), plain_len))
    d = spec.snapshot_diff(before, spec.snapshot(prog))
    if d:
        return ctx.fail("optimize.mutated_source", "source program changed by optimize/compile: " + d)
    try:
        with warnings.catch_warnings():
            warnings.simplefilter("ignore")
            if case["target"] != "none":
                # isolate the optimiser from the (finite) precision of the decompositions: compare with the unoptimised
                # compilation of the same program (the decompositions themselves are C02's subject)
                doc = spec.ref_run(n, _specs_bound(plain, plain.circuit, bind), 2.0)
            elif has_ge:
                doc = spec.ref_run(n, _ref_specs(prog, bind), 2.0)
            got_specs = _ref_specs(opt, bind)
        got = spec.ref_run(n, got_specs, 2.0)
    except refsim.RefError as exc:
        return ctx.fail("optimize.unknown_op", str(exc))
    except Exception as exc:  # pylint: disable=broad-except
        return ctx.crash(exc, "evaluate_optimised")
    diff = max(float(np.max(np.abs(doc.X - got.X))), float(np.max(np.abs(doc.Y - got.Y))), float(np.max(np.abs(doc.d - got.d))))
    if diff > 1e-9 * (1 + float(np.max(np.abs(doc.X))) ** 2 + float(np.max(np.abs(doc.Y))) + float(np.max(np.abs(doc.d)))):
        fam = _culprit_family(case)
        return ctx.fail("optimize.changed_map.%s" % fam, "optimised (%s) circuit %s differs from the source map by %.3g" % (case["target"], [s[0] for s in got_specs], diff))
    d = spec.snapshot_diff(before, spec.snapshot(prog), ignore_meta=())
    if d:
        return ctx.fail("optimize.mutated_source", "source program changed by evaluating the optimised copy: " + d)
    return None


def _culprit_family(case):
    """family of the first block whose own pair is optimised wrongly (root-cause label)"""
    for fam in case["fams"]:
        return fam.rstrip("1") if len(case["fams"]) == 1 else "+".join(f.rstrip("1") for f in case["fams"])
    return "unknown"


# ---------------------------------------------------------------------------------------------
# fock: Kgate / Vgate / CKgate families with a random bounded-photon ket
# ---------------------------------------------------------------------------------------------
@st.composite
def fock_case(draw):
    from vf.props.c05 import ket_terms

    n = draw(st.integers(1, 2))
    D = draw(st.integers(4, 6))
    blocks = [draw(block(n, ["Kgate", "Kgate", "Vgate", "Rgate", "CKgate" if n > 1 else "Kgate"], "fock")) for _ in range(draw(st.integers(1, 3)))]
    ops_ = [o for b in blocks for o in b[0]]
    for o in ops_:
        if o[0] == "CKgate" and len(o[2]) < 2:
            o[2] = [0, 1]
    return {"n": n, "cutoff": D, "ket": draw(ket_terms(n, D - 1)), "ops": ops_, "fams": sorted({b[1] for b in blocks}), "rels": sorted({b[2] for b in blocks})}


def check_fock(ctx, case):
    import warnings

    import strawberryfields as sf
    from strawberryfields import ops
    from vf.props.c05 import ket_from_terms

    n, D = case["n"], case["cutoff"]
    psi = ket_from_terms(n, D, case["ket"])

    def build():
        prog = sf.Program(n)
        with prog.context as q:
            ops.Ket(psi) | tuple(q)
            for o in case["ops"]:
                op = spec.make_op(ops, o[0], o[1], o[3] if len(o) > 3 else {})
                regs = tuple(q[m] for m in o[2])
                op | (regs if len(regs) > 1 else regs[0])
        return prog

    prog = build()
    before = spec.snapshot(prog)
    with warnings.catch_warnings():
        warnings.simplefilter("ignore")
        try:
            opt = prog.optimize()
            s0 = sf.Engine("fock", backend_options={"cutoff_dim": D}).run(build()).state
            s1 = sf.Engine("fock", backend_options={"cutoff_dim": D}).run(opt).state
        except Exception as exc:  # pylint: disable=broad-except
            ctx.note(case, True, [])
            return ctx.crash(exc, "fock_optimize")
    merged = len(opt.circuit) < len(prog.circuit)
    ctx.note(case, nontrivial=merged, labels=["family:" + f for f in case["fams"]] + (["merged"] if merged else []))
    d = float(np.max(np.abs(fockref.state_dm(s0) - fockref.state_dm(s1))))
    tol = 1e-7 if "Vgate" in case["fams"] else 1e-9
    if d > tol:
        return ctx.fail("optimize.changed_state.fock.%s" % "+".join(case["fams"]), "states of source and optimised program differ by %.3g" % d)
    dd = spec.snapshot_diff(before, spec.snapshot(prog), ignore_meta=())
    if dd:
        return ctx.fail("optimize.mutated_source", "source program changed: " + dd)
    return None


# ---------------------------------------------------------------------------------------------
# bosonic: MSgate pairs
# ---------------------------------------------------------------------------------------------
@st.composite
def ms_case(draw):
    r1, r2 = draw(gen.fl(0.2, 1.0)), draw(gen.fl(0.2, 1.0))
    if draw(st.integers(0, 3)) == 0:
        r2 = 1.0 / r1 if 0.2 <= 1.0 / r1 <= 1.5 else r2
    phi = draw(st.sampled_from([0.0, np.pi / 2, 0.3]))
    pre = draw(gen.op_list(1, ["Dgate", "Sgate", "Rgate"], "ps", 0, 2))
    return {"pre": pre, "r": [r1, r2], "phi": phi, "r_anc": draw(gen.fl(1.0, 2.0)), "eta": draw(gen.fl(0.8, 1.0))}


def check_ms(ctx, case):
    import warnings

    import strawberryfields as sf
    from strawberryfields import ops

    def build():
        prog = spec.build_program(1, case["pre"])
        with prog.context as q:
            for r in case["r"]:
                ops.MSgate(r, case["phi"], case["r_anc"], case["eta"], avg=True) | q[0]
        return prog

    with warnings.catch_warnings():
        warnings.simplefilter("ignore")
        try:
            prog = build()
            opt = prog.optimize()
            s0 = sf.Engine("bosonic").run(build()).state
            s1 = sf.Engine("bosonic").run(opt).state
        except Exception as exc:  # pylint: disable=broad-except
            ctx.note(case, True, [])
            return ctx.crash(exc, "msgate_optimize")
    ctx.note(case, nontrivial=True, labels=["family:MSgate"] + (["merged"] if len(opt.circuit) < len(prog.circuit) else []))
    m0, V0, _ = sfrun.moments_of(s0, "bosonic")
    m1, V1, _ = sfrun.moments_of(s1, "bosonic")
    d = max(float(np.max(np.abs(m0 - m1))), float(np.max(np.abs(V0 - V1))))
    if d > 1e-8 * (1 + float(np.max(np.abs(V0)))):
        return ctx.fail("optimize.changed_state.MSgate", "two MSgates r=%s were optimised to %s: states differ by %.3g" % (case["r"], [str(c.op) for c in opt.circuit[len(case["pre"]):]], d))
    return None


# ---------------------------------------------------------------------------------------------
# feed-forward programs: the optimiser must leave gates that depend on measured values alone (or merge them correctly)
# ---------------------------------------------------------------------------------------------
def measured_case():
    from vf.props import c10

    def force(c, k=[0]):
        c = dict(c)
        c["optimize"] = c.get("optimize") or "optimize"
        return c

    return c10.meas_case().map(force)


def check_measured(ctx, case):
    """C10's measured-parameter histories (post-selected homodyne, gates fed by the outcomes incl. neighbouring gates of one family fed by
    the same mode, re-measurement, two segments) with optimisation always on: the state must equal the twin with the outcomes substituted"""
    from vf.props import c10

    ctx.label("optimised_feed_forward")
    return c10.check_meas(ctx, case)


SUBS = [
    Sub("measured_opt", check=check_measured, strategy=lambda ctx: measured_case(), examples={"quick": 400, "thorough": 4000},
        shards={"quick": 1, "thorough": 8}, rule="feed-forward programs (C10's measured histories) optimised with optimize() / compile(optimize=True) vs the numeric twin"),
    Sub("gaussian_opt", check=check_gauss, strategy=lambda ctx: gauss_case(), examples={"quick": 1200, "thorough": 10000},
        shards={"quick": 2, "thorough": 16}, rule="Gaussian programs with same-family blocks: optimize() and compile(optimize=True) vs source, as full maps; snapshot immutability"),
    Sub("fock_opt", check=check_fock, strategy=lambda ctx: fock_case(), examples={"quick": 120, "thorough": 1000},
        shards={"quick": 1, "thorough": 8}, rule="Kgate/Vgate/CKgate/Rgate blocks on a bounded-photon random ket: fock states of source vs optimised"),
    Sub("msgate_opt", check=check_ms, strategy=lambda ctx: ms_case(), examples={"quick": 60, "thorough": 400},
        shards={"quick": 1, "thorough": 4}, rule="pairs of MSgate(avg=True) on the bosonic backend: source vs optimised"),
]

MANIFEST = {
    "technique": "Hypothesis metamorphic testing: optimised vs source program as full phase-space maps (refsim) and as Fock/bosonic states; snapshot immutability",
    "text": ("Programs are generated from blocks of same-family neighbours (every one-mode gate, channel, preparation and 1x1 decomposition "
             "family; inverse, daggered, equal, nearly-inverse, symbolic (first/second parameter, same symbol, channel transmission) and "
             "non-mergeable pairs incl. second parameters that differ by 1e-7; operation objects used by several commands; compile() with "
             "run/backend options) so that merges and cancellations really happen; the optimised "
             "circuit must be the same affine phase-space map (Gaussian) / give the same state (Kerr, cubic phase, measurement-based squeezing), "
             "must not be longer, and the source program must be bit-for-bit untouched."),
}
