"""C03 - circuit optimisation never changes what a program computes.

Oracles
  (a) Gaussian programs: refsim map (X, Y, d) of the source == refsim map of ``prog.optimize().circuit`` and of
      ``prog.compile(compiler=c, optimize=True).circuit`` (all input states at once).
  (b) non-Gaussian one-mode families (Kgate, Vgate) and MSgate: states of source vs optimised program on the fock
      (bounded-photon random Ket) resp. bosonic backend.
  (c) immutability: deep snapshot of the source program before == after optimize() / compile(optimize=True) / running
      the optimised copy.
  (d) structure: the optimised circuit is never longer than the source.
"""
from __future__ import annotations

import numpy as np
from hypothesis import strategies as st

from vf import fockref, gen, refsim, sfrun, spec
from vf.core import Sub

RULE = ("programs of 1..4 modes built from blocks of 2..3 same-family operations on the same wire (generic / inverse / "
        "daggered / equal / non-mergeable second parameter), interleaved with commands on other wires; every one-mode "
        "Gate, Channel, Preparation and 1x1 Decomposition family; free symbolic parameters; non-trivial = the optimised "
        "circuit is shorter than the source (a merge or cancellation really happened)")
ASSUMPTIONS = [
    "Gaussian maps compared at 1e-9 absolute (hbar=2); fock states at 1e-9 (Kgate on bounded-photon kets is exact), Vgate 1e-7",
    "refsim encodes the documented maps (self-tested)",
    "two-mode families are never merged by the optimiser (documented todo); they are generated to check they are left alone",
]
REQUIRED_LABELS = {"all": ["merged", "merge_to_identity", "dagger_pair", "channel_merge", "fourier_pair", "prep_pair",
                           "symbolic_param_merge", "family:Sgate", "family:LossChannel", "family:Kgate"]}

ONE_MODE_G = ["Dgate", "Xgate", "Zgate", "Sgate", "Pgate", "Rgate", "Fouriergate"]
TWO_MODE_G = ["BSgate", "S2gate", "MZgate", "sMZgate", "CXgate", "CZgate"]
CHAN = ["LossChannel", "ThermalLossChannel", "PassiveChannel1"]
PREP = ["Vacuum", "Coherent", "Squeezed", "Thermal", "DisplacedSqueezed"]
DECOMP = ["Interferometer1", "GaussianTransform1"]


def selftest():
    refsim.selftest()


# ---------------------------------------------------------------------------------------------
@st.composite
def block(draw, n, families, energy="ps", allow_free=False):
    fam = draw(st.sampled_from(families))
    two = fam in TWO_MODE_G
    if two and n < 2:
        fam, two = "Sgate", False
    modes = list(draw(st.permutations(list(range(n))))[: 2 if two else 1])
    rel = draw(st.sampled_from(["generic", "inverse", "dagger", "equal", "second_differs", "triple", "inverse_second_differs", "dagger_second_differs"]))
    out = []

    def mk(params, H=False):
        return [fam.rstrip("1") if fam.endswith("1") else fam, params, modes, {"H": True} if H else {}]

    if fam == "PassiveChannel1":
        t1 = draw(gen.fl(0.2, 1.0)) * np.exp(1j * draw(gen.angle()))
        t2 = (1 / t1) if rel == "inverse" and abs(t1) == 1 else draw(gen.fl(0.2, 1.0)) * np.exp(1j * draw(gen.angle()))
        if rel == "inverse":
            t1 = np.exp(1j * draw(gen.angle()))
            t2 = np.conj(t1)
        return [mk([spec.enc_matrix(np.array([[t1]]))]), mk([spec.enc_matrix(np.array([[t2]]))])], fam, rel
    if fam == "Interferometer1":
        a, b = draw(gen.angle()), draw(gen.angle())
        if rel == "inverse":
            b = -a
        return [mk([spec.enc_matrix(np.array([[np.exp(1j * a)]]))]), mk([spec.enc_matrix(np.array([[np.exp(1j * b)]]))])], fam, rel
    if fam == "GaussianTransform1":
        def symp():
            th, r, ph = draw(gen.angle()), draw(gen.fl(-0.5, 0.5)), draw(gen.angle())
            R = lambda t: np.array([[np.cos(t), -np.sin(t)], [np.sin(t), np.cos(t)]])  # noqa: E731
            return R(th) @ np.diag([np.exp(-r), np.exp(r)]) @ R(ph)
        S1 = symp()
        S2 = np.linalg.inv(S1) if rel == "inverse" else symp()
        return [mk([spec.enc_matrix(S1)]), mk([spec.enc_matrix(S2)])], fam, rel
    if fam in PREP:
        return [mk(draw(gen.op_params(fam, energy))), [draw(st.sampled_from(PREP)), None, modes, {}]], fam, "prep_pair"
    p1 = draw(gen.op_params(fam, energy))
    if fam == "Fouriergate":
        k = 3 if rel == "triple" else 2
        hs = [draw(st.booleans()) for _ in range(k)]
        if rel == "dagger":
            hs = [False, True]
        return [mk([], h) for h in hs], fam, "fourier_pair"
    p2 = draw(gen.op_params(fam, energy))
    p2[1:] = p1[1:]
    h1 = h2 = False
    if rel == "inverse" and fam not in CHAN:
        p2[0] = -p1[0]
    elif rel == "inverse":
        p1[0] = 1.0
        p2[0] = 1.0
    elif rel == "dagger" and fam not in CHAN:
        p2[0] = p1[0]
        h2 = True
        if draw(st.booleans()):
            h1, h2 = True, False
    elif rel == "equal":
        p2[0] = p1[0]
        h1 = h2 = draw(st.booleans()) if fam not in CHAN else False
    elif rel == "second_differs" and len(p1) > 1:
        p2[1] = p1[1] + 0.3
    elif rel == "inverse_second_differs" and len(p1) > 1 and fam not in CHAN:
        # first parameters cancel exactly but the phases differ: NOT the identity, must not be merged away
        p2[0] = -p1[0]
        p2[1] = p1[1] + draw(st.sampled_from([0.3, 1.3, np.pi / 2]))
    elif rel == "dagger_second_differs" and len(p1) > 1 and fam not in CHAN:
        p2[0] = p1[0]
        p2[1] = p1[1] + draw(st.sampled_from([0.3, 1.7]))
        h2 = True
    if allow_free and fam not in CHAN and draw(st.integers(0, 3)) == 0:
        # free symbolic first parameters: ["free", name]; values are bound from case["bind"]
        p1[0] = ["free", "a"]
        if draw(st.booleans()):
            p2[0] = ["free", "b"]
        rel = "symbolic"
    out = [mk(p1, h1), mk(p2, h2)]
    if rel == "triple":
        p3 = draw(gen.op_params(fam, energy))
        p3[1:] = p1[1:]
        out.append(mk(p3, draw(st.booleans()) if fam not in CHAN else False))
    return out, fam, rel


@st.composite
def gauss_case(draw):
    n = draw(st.integers(1, 4))
    fams = ONE_MODE_G + ONE_MODE_G + TWO_MODE_G + CHAN + PREP + DECOMP
    blocks = [draw(block(n, fams, "ps", allow_free=True)) for _ in range(draw(st.integers(1, 4)))]
    # interleave: ops of a block stay in order; between them ops of other blocks may appear
    seqs = [b[0] for b in blocks]
    order = []
    for i, s in enumerate(seqs):
        order += [i] * len(s)
    order = list(draw(st.permutations(order)))
    pos = [0] * len(seqs)
    ops_ = []
    for i in order:
        ops_.append(seqs[i][pos[i]])
        pos[i] += 1
    for o in ops_:
        if o[1] is None:
            o[1] = draw(gen.op_params(o[0], "ps"))
    bind = {"a": draw(gen.fl(-0.8, 0.8)), "b": draw(gen.fl(-0.8, 0.8))}
    return {"n": n, "ops": ops_, "bind": bind, "fams": sorted({b[1] for b in blocks}), "rels": sorted({b[2] for b in blocks}),
            "target": draw(st.sampled_from(["none", "gaussian", "gaussian", "fock", "bosonic"]))}


def _numeric(ops_, bind):
    out = []
    for o in ops_:
        ps = [bind[p[1]] if isinstance(p, list) and p and p[0] == "free" else p for p in o[1]]
        out.append([o[0], ps, o[2], o[3] if len(o) > 3 else {}])
    return out


def _build(case):
    import strawberryfields as sf

    prog = sf.Program(case["n"])
    syms = {}

    def sym(ast):
        name = ast[1]
        if name not in syms:
            syms[name] = prog.params(name)
        return syms[name]

    from strawberryfields import ops

    with prog.context as q:
        for o in case["ops"]:
            op = spec.make_op(ops, o[0], o[1], o[3] if len(o) > 3 else {}, sym)
            regs = tuple(q[m] for m in o[2])
            op | (regs if len(regs) > 1 else regs[0])
    return prog, syms


def _specs_bound(prog, circuit, bind):
    """numeric specs of a circuit after binding the free parameters"""
    prog.bind_params({k: v for k, v in bind.items() if k in prog.free_params})
    return spec.circuit_to_specs(circuit)


def check_gauss(ctx, case):
    import warnings

    from strawberryfields.program_utils import CircuitError

    n, bind = case["n"], case["bind"]
    src_num = _numeric(case["ops"], bind)
    doc = spec.ref_run(n, src_num, 2.0)
    prog, syms = _build(case)
    before = spec.snapshot(prog)
    labels = ["family:" + f.rstrip("1") for f in case["fams"]] + ["rel:" + r for r in case["rels"]]
    if "dagger" in case["rels"]:
        labels.append("dagger_pair")
    if "fourier_pair" in case["rels"]:
        labels.append("fourier_pair")
    if "prep_pair" in case["rels"]:
        labels.append("prep_pair")
    with warnings.catch_warnings():
        warnings.simplefilter("ignore")
        try:
            if case["target"] == "none":
                opt = prog.optimize()
                plain_len = len(prog.circuit)
            else:
                opt = prog.compile(compiler=case["target"], optimize=True)
                plain = prog.compile(compiler=case["target"], optimize=False)
                plain_len = len(plain.circuit)
        except CircuitError:
            ctx.note(case, False, ["rejected:" + case["target"]])
            return None
        except Exception as exc:  # pylint: disable=broad-except
            ctx.note(case, True, labels)
            return ctx.crash(exc, "optimize")
    merged = len(opt.circuit) < plain_len
    if merged:
        labels.append("merged")
        if any(r in ("inverse", "dagger") for r in case["rels"]):
            labels.append("merge_to_identity")
        if any(f in CHAN for f in case["fams"]):
            labels.append("channel_merge")
        if syms:
            labels.append("symbolic_param_merge")
    ctx.note(case, nontrivial=merged, labels=labels)
    if len(opt.circuit) > plain_len:
        return ctx.fail("optimize.grew", "optimised circuit has %d commands, unoptimised %d" % (len(opt.circuit), plain_len))
    d = spec.snapshot_diff(before, spec.snapshot(prog))
    if d:
        return ctx.fail("optimize.mutated_source", "source program changed by optimize/compile: " + d)
    try:
        if case["target"] != "none":
            # isolate the optimiser from the (finite) precision of the decompositions: compare with the unoptimised
            # compilation of the same program (the decompositions themselves are C02's subject)
            doc = spec.ref_run(n, _specs_bound(plain, plain.circuit, bind), 2.0)
        got_specs = _specs_bound(opt, opt.circuit, bind)
        got = spec.ref_run(n, got_specs, 2.0)
    except refsim.RefError as exc:
        return ctx.fail("optimize.unknown_op", str(exc))
    except Exception as exc:  # pylint: disable=broad-except
        return ctx.crash(exc, "evaluate_optimised")
    diff = max(float(np.max(np.abs(doc.X - got.X))), float(np.max(np.abs(doc.Y - got.Y))), float(np.max(np.abs(doc.d - got.d))))
    if diff > 1e-9 * (1 + float(np.max(np.abs(doc.X))) ** 2 + float(np.max(np.abs(doc.Y))) + float(np.max(np.abs(doc.d)))):
        fam = _culprit_family(case)
        return ctx.fail("optimize.changed_map.%s" % fam, "optimised (%s) circuit %s differs from the source map by %.3g" % (case["target"], [s[0] for s in got_specs], diff))
    d = spec.snapshot_diff(before, spec.snapshot(prog), ignore_meta=())
    if d:
        return ctx.fail("optimize.mutated_source", "source program changed by evaluating the optimised copy: " + d)
    return None


def _culprit_family(case):
    """family of the first block whose own pair is optimised wrongly (root-cause label)"""
    for fam in case["fams"]:
        return fam.rstrip("1") if len(case["fams"]) == 1 else "+".join(f.rstrip("1") for f in case["fams"])
    return "unknown"


# ---------------------------------------------------------------------------------------------
# fock: Kgate / Vgate / CKgate families with a random bounded-photon ket
# ---------------------------------------------------------------------------------------------
@st.composite
def fock_case(draw):
    from vf.props.c05 import ket_terms

    n = draw(st.integers(1, 2))
    D = draw(st.integers(4, 6))
    blocks = [draw(block(n, ["Kgate", "Kgate", "Vgate", "Rgate", "CKgate" if n > 1 else "Kgate"], "fock")) for _ in range(draw(st.integers(1, 3)))]
    ops_ = [o for b in blocks for o in b[0]]
    for o in ops_:
        if o[0] == "CKgate" and len(o[2]) < 2:
            o[2] = [0, 1]
    return {"n": n, "cutoff": D, "ket": draw(ket_terms(n, D - 1)), "ops": ops_, "fams": sorted({b[1] for b in blocks}), "rels": sorted({b[2] for b in blocks})}


def check_fock(ctx, case):
    import warnings

    import strawberryfields as sf
    from strawberryfields import ops
    from vf.props.c05 import ket_from_terms

    n, D = case["n"], case["cutoff"]
    psi = ket_from_terms(n, D, case["ket"])

    def build():
        prog = sf.Program(n)
        with prog.context as q:
            ops.Ket(psi) | tuple(q)
            for o in case["ops"]:
                op = spec.make_op(ops, o[0], o[1], o[3] if len(o) > 3 else {})
                regs = tuple(q[m] for m in o[2])
                op | (regs if len(regs) > 1 else regs[0])
        return prog

    prog = build()
    before = spec.snapshot(prog)
    with warnings.catch_warnings():
        warnings.simplefilter("ignore")
        try:
            opt = prog.optimize()
            s0 = sf.Engine("fock", backend_options={"cutoff_dim": D}).run(build()).state
            s1 = sf.Engine("fock", backend_options={"cutoff_dim": D}).run(opt).state
        except Exception as exc:  # pylint: disable=broad-except
            ctx.note(case, True, [])
            return ctx.crash(exc, "fock_optimize")
    merged = len(opt.circuit) < len(prog.circuit)
    ctx.note(case, nontrivial=merged, labels=["family:" + f for f in case["fams"]] + (["merged"] if merged else []))
    d = float(np.max(np.abs(fockref.state_dm(s0) - fockref.state_dm(s1))))
    tol = 1e-7 if "Vgate" in case["fams"] else 1e-9
    if d > tol:
        return ctx.fail("optimize.changed_state.fock.%s" % "+".join(case["fams"]), "states of source and optimised program differ by %.3g" % d)
    dd = spec.snapshot_diff(before, spec.snapshot(prog), ignore_meta=())
    if dd:
        return ctx.fail("optimize.mutated_source", "source program changed: " + dd)
    return None


# ---------------------------------------------------------------------------------------------
# bosonic: MSgate pairs
# ---------------------------------------------------------------------------------------------
@st.composite
def ms_case(draw):
    r1, r2 = draw(gen.fl(0.2, 1.0)), draw(gen.fl(0.2, 1.0))
    if draw(st.integers(0, 3)) == 0:
        r2 = 1.0 / r1 if 0.2 <= 1.0 / r1 <= 1.5 else r2
    phi = draw(st.sampled_from([0.0, np.pi / 2, 0.3]))
    pre = draw(gen.op_list(1, ["Dgate", "Sgate", "Rgate"], "ps", 0, 2))
    return {"pre": pre, "r": [r1, r2], "phi": phi, "r_anc": draw(gen.fl(1.0, 2.0)), "eta": draw(gen.fl(0.8, 1.0))}


def check_ms(ctx, case):
    import warnings

    import strawberryfields as sf
    from strawberryfields import ops

    def build():
        prog = spec.build_program(1, case["pre"])
        with prog.context as q:
            for r in case["r"]:
                ops.MSgate(r, case["phi"], case["r_anc"], case["eta"], avg=True) | q[0]
        return prog

    with warnings.catch_warnings():
        warnings.simplefilter("ignore")
        try:
            prog = build()
            opt = prog.optimize()
            s0 = sf.Engine("bosonic").run(build()).state
            s1 = sf.Engine("bosonic").run(opt).state
        except Exception as exc:  # pylint: disable=broad-except
            ctx.note(case, True, [])
            return ctx.crash(exc, "msgate_optimize")
    ctx.note(case, nontrivial=True, labels=["family:MSgate"] + (["merged"] if len(opt.circuit) < len(prog.circuit) else []))
    m0, V0, _ = sfrun.moments_of(s0, "bosonic")
    m1, V1, _ = sfrun.moments_of(s1, "bosonic")
    d = max(float(np.max(np.abs(m0 - m1))), float(np.max(np.abs(V0 - V1))))
    if d > 1e-8 * (1 + float(np.max(np.abs(V0)))):
        return ctx.fail("optimize.changed_state.MSgate", "two MSgates r=%s were optimised to %s: states differ by %.3g" % (case["r"], [str(c.op) for c in opt.circuit[len(case["pre"]):]], d))
    return None


# ---------------------------------------------------------------------------------------------
# feed-forward programs: the optimiser must leave gates that depend on measured values alone (or merge them correctly)
# ---------------------------------------------------------------------------------------------
def measured_case():
    from vf.props import c10

    def force(c, k=[0]):
        c = dict(c)
        c["optimize"] = c.get("optimize") or "optimize"
        return c

    return c10.meas_case().map(force)


def check_measured(ctx, case):
    """C10's measured-parameter histories (post-selected homodyne, gates fed by the outcomes incl. neighbouring gates of one family fed by
    the same mode, re-measurement, two segments) with optimisation always on: the state must equal the twin with the outcomes substituted"""
    from vf.props import c10

    ctx.label("optimised_feed_forward")
    return c10.check_meas(ctx, case)


SUBS = [
    Sub("measured_opt", check=check_measured, strategy=lambda ctx: measured_case(), examples={"quick": 400, "thorough": 4000},
        shards={"quick": 1, "thorough": 8}, rule="feed-forward programs (C10's measured histories) optimised with optimize() / compile(optimize=True) vs the numeric twin"),
    Sub("gaussian_opt", check=check_gauss, strategy=lambda ctx: gauss_case(), examples={"quick": 1200, "thorough": 10000},
        shards={"quick": 2, "thorough": 16}, rule="Gaussian programs with same-family blocks: optimize() and compile(optimize=True) vs source, as full maps; snapshot immutability"),
    Sub("fock_opt", check=check_fock, strategy=lambda ctx: fock_case(), examples={"quick": 120, "thorough": 1000},
        shards={"quick": 1, "thorough": 8}, rule="Kgate/Vgate/CKgate/Rgate blocks on a bounded-photon random ket: fock states of source vs optimised"),
    Sub("msgate_opt", check=check_ms, strategy=lambda ctx: ms_case(), examples={"quick": 60, "thorough": 400},
        shards={"quick": 1, "thorough": 4}, rule="pairs of MSgate(avg=True) on the bosonic backend: source vs optimised"),
]

MANIFEST = {
    "technique": "Hypothesis metamorphic testing: optimised vs source program as full phase-space maps (refsim) and as Fock/bosonic states; snapshot immutability",
    "text": ("Programs are generated from blocks of same-family neighbours (every one-mode gate, channel, preparation and 1x1 decomposition "
             "family; inverse, daggered, equal, symbolic and non-mergeable pairs) so that merges and cancellations really happen; the optimised "
             "circuit must be the same affine phase-space map (Gaussian) / give the same state (Kerr, cubic phase, measurement-based squeezing), "
             "must not be longer, and the source program must be bit-for-bit untouched."),
}
