"""C12 - hardware compilation conforms to the device and preserves the experiment.

Sub-checks
----------
x_compile   source programs for the X-series compilers (Xstrict / Xunitary / Xcov) against the verbatim X8 layout and
            harness-built X-style layouts for 2, 4, 6, 8 modes with generated parameter ranges.
borealis    3-loop time-domain programs compiled for generated loop-phase certificates; explicit-loop reference.
tdm_generic small generated single-loop device layouts for the generic "TDM" / "TD2" compilers (layout + ranges only).
vacuum_padding  tdm.utils.vacuum_padding on the three Borealis loops used as tdm.utils.borealis_gbs uses them (opened for their delay or
            bypassed): explicit-loop reference, every photon must have reached the detector when the padded program ends.

All oracles are computed by the harness from the *spec dictionary* (layout text parsed by blackbird, own range test) and
from refsim; nothing is imported from /repo/tests and neither `Ranges` nor `match_template` is used to decide.
"""
from __future__ import annotations

import inspect
import logging
from math import factorial

import numpy as np
from hypothesis import strategies as st

from vf import gen, refsim, sfrun, spec
from vf.core import Sub

PI = float(np.pi)
TWO_PI = 6.283185307179586

RULE = ("x_compile: (device spec, compiler, source program) with the source drawn from two families - GBS form (S2gates incl. zero / "
        "missing / repeated / daggered, interferometer part as Interferometer, gate sequence or BipartiteGraphEmbed, symmetric or "
        "deliberately asymmetric, a stray Sgate / intra-half S2gate in exactly one half, measurement-only and net-identity sources, full / "
        "split / partial measurement) and layout form with one optional mutation (incl. values outside a range by 4e-5 / 1e-4); devices: "
        "2-12 modes, modes as integer or measurement-limit dictionary, gate_parameters complete / with a missing entry / with nested single "
        "values / absent; compile with an explicit compiler or the device default, optionally optimize=True; non-trivial = "
        "compilation succeeded AND the compiled command list differs from the source AND >= 1 non-zero squeezer; "
        "borealis / tdm_generic: non-trivial = compilation succeeded and (borealis) the parameter arrays were changed; borealis phases "
        "are written in range by construction, arbitrary, or arbitrary and passed through tdm.utils.make_phases_compatible; tdm_generic "
        "compiles on freshly reset compiler classes, or twice in a row without a reset; "
        "distinct = distinct JSON")
ASSUMPTIONS = [
    "layout text is parsed with the third-party blackbird parser; conformance = equal per-mode sequences of (gate name, ordered "
    "modes) of layout and compiled circuit (equivalent to equality of the dependency DAGs), no daggered gate, hard-coded layout "
    "arguments equal to 1e-9, every placeholder value inside the range of the spec (own test, tolerance 1e-9) and consistent "
    "between all its occurrences",
    "values outside a range by more than 1e-9 but at most 1e-5 are NOT failed: 1e-5 is the documented absolute tolerance of the "
    "library's Range class; they are counted under the label inside_only_by_documented_atol",
    "outcome: CircuitError or ValueError = rejection (never a failure, except for a source that is itself exactly in layout "
    "form with all parameters inside the ranges, which Xstrict - and, for the full phase range and a shared squeezing set, "
    "Xunitary / Xcov - must accept); any other exception is a violation",
    "same experiment: refsim (self-tested) runs source and compiled circuit from vacuum; Xstrict/Xunitary: covariance of all "
    "modes equal to 1e-7 (relative to max(1, |V|)); Xcov: diag N, |N_ij|, |M_ij| equal to 1e-7 and the probabilities of all "
    "photon patterns with <= 3 photons on a generated subset of <= 5 modes plus generated 4-photon patterns equal to 1e-7 "
    "(own hafnian formula, self-tested against closed forms and thewalrus.quantum.density_matrix_element)",
    "BipartiteGraphEmbed(A) sources are built as A = O tanh(r) O^T with the mean photon number of that state, so that the "
    "documented meaning (pure state with adjacency block proportional to A with the given mean photon number) is the refsim "
    "circuit S2gate(r_i) + O (+) O; the self-test checks that claim with the own A-matrix function",
    "borealis: explicit-loop reference (pulse k = fresh mode) for source on ideal loops and for compiled.circuit + "
    "compiled.tdm_params with the loop-offset gates; |N_ij|, |M_ij| on the measured pulses equal to 1e-9; compared only when the "
    "harness' own frame-phase derivation (theta_k[j] = phi_k floor(j / delay_k)) says that every compensated phase of loops 1, 2 "
    "lies at least 1e-6 inside the modulator range (otherwise the documented pi shift applies: conformance and outcome only)",
    "user-inserted loop offsets are only generated with the certificate's value (the documented use)",
    "compile(device=..) without a compiler argument: Program.compile_info[1] must name the first entry of the device's compiler list, "
    "'Xunitary' for an empty list (docstrings of Program.compile and Device.default_compiler)",
    "device.modes as a dictionary {pnr_max, homodyne_max, heterodyne_max} (Program.assert_modes): a source whose MeasureFock / "
    "MeasureHomodyne commands cover more modes than allowed must be refused; with an integer, a program with more modes must be refused",
    "tdm.utils.to_args_dict -> make_phases_compatible -> to_args_list: squeezing / beamsplitter / loop-0 phase lists come back unchanged, "
    "phases of loops 1, 2 unchanged or shifted by pi (mod 2 pi, 1e-9), and afterwards the harness' own frame-phase derivation finds every "
    "compensated phase of loops 1, 2 inside the modulator range (1e-9)",
    "tdm_generic: two compilations of one program for one device without a reset of the compiler class in between (the second one "
    "meets the cached layout and graph) must give identical results",
    "x_compile sources are exactly symmetric between the two halves or asymmetric by >= 1e-3: the np.allclose tolerance (1e-5) within "
    "which Xunitary / Xcov regard the two unitaries as identical is not probed",
]
REQUIRED_LABELS = {"all": ["compiler:Xstrict", "compiler:Xunitary", "compiler:Xcov", "rejected", "accepted", "zero_squeezing",
                           "repeated_s2", "permutation_unitary", "dagger", "resynthesised",
                           # generator audit: each of these is produced some hundreds of times per quick run at every seed
                           "compiler_arg:default", "modes:dict", "optimize", "two_digit_mode_index", "value_just_outside_documented_atol",
                           "layout_without_target_line", "program_shorter_than_open_loop", "mutation:arr_gap"]}

# ----------------------------------------------------------------------------------------------
# device data copied verbatim from tests/frontend/compilers/conftest.py
# ----------------------------------------------------------------------------------------------
X8_LAYOUT = inspect.cleandoc(
    """
    name template_4x2_X8
    version 1.0
    target X8_01 (shots=1)

    # for n spatial degrees, first n signal modes, then n idler modes, all phases zero
    S2gate({squeezing_amplitude_0}, 0.0) | [0, 4]
    S2gate({squeezing_amplitude_1}, 0.0) | [1, 5]
    S2gate({squeezing_amplitude_2}, 0.0) | [2, 6]
    S2gate({squeezing_amplitude_3}, 0.0) | [3, 7]

    # standard 4x4 interferometer for the signal modes (the lower ones in frequency)
    # even phase indices correspond to internal Mach-Zehnder interferometer phases
    # odd phase indices correspond to external Mach-Zehnder interferometer phases
    MZgate({phase_0}, {phase_1}) | [0, 1]
    MZgate({phase_2}, {phase_3}) | [2, 3]
    MZgate({phase_4}, {phase_5}) | [1, 2]
    MZgate({phase_6}, {phase_7}) | [0, 1]
    MZgate({phase_8}, {phase_9}) | [2, 3]
    MZgate({phase_10}, {phase_11}) | [1, 2]

    # duplicate the interferometer for the idler modes (the higher ones in frequency)
    MZgate({phase_0}, {phase_1}) | [4, 5]
    MZgate({phase_2}, {phase_3}) | [6, 7]
    MZgate({phase_4}, {phase_5}) | [5, 6]
    MZgate({phase_6}, {phase_7}) | [4, 5]
    MZgate({phase_8}, {phase_9}) | [6, 7]
    MZgate({phase_10}, {phase_11}) | [5, 6]

    # add final dummy phases to allow mapping any unitary to this template (these do not
    # affect the photon number measurement)
    Rgate({final_phase_0}) | [0]
    Rgate({final_phase_1}) | [1]
    Rgate({final_phase_2}) | [2]
    Rgate({final_phase_3}) | [3]
    Rgate({final_phase_4}) | [4]
    Rgate({final_phase_5}) | [5]
    Rgate({final_phase_6}) | [6]
    Rgate({final_phase_7}) | [7]

    # measurement in Fock basis
    MeasureFock() | [0, 1, 2, 3, 4, 5, 6, 7]
    """
)

X8_GATE_PARAMETERS = {
    "squeezing_amplitude_0": [0, 1],
    "squeezing_amplitude_1": [0, 1],
    "squeezing_amplitude_2": [0, 1],
    "squeezing_amplitude_3": [0, 1],
    "phase_0": [0, [0, 6.283185307179586]],
    "phase_1": [0, [0, 6.283185307179586]],
    "phase_2": [0, [0, 6.283185307179586]],
    "phase_3": [0, [0, 6.283185307179586]],
    "phase_4": [0, [0, 6.283185307179586]],
    "phase_5": [0, [0, 6.283185307179586]],
    "phase_6": [0, [0, 6.283185307179586]],
    "phase_7": [0, [0, 6.283185307179586]],
    "phase_8": [0, [0, 6.283185307179586]],
    "phase_9": [0, [0, 6.283185307179586]],
    "phase_10": [0, [0, 6.283185307179586]],
    "phase_11": [0, [0, 6.283185307179586]],
    "final_phase_0": [0, [0, 6.283185307179586]],
    "final_phase_1": [0, [0, 6.283185307179586]],
    "final_phase_2": [0, [0, 6.283185307179586]],
    "final_phase_3": [0, [0, 6.283185307179586]],
    "final_phase_4": [0, [0, 6.283185307179586]],
    "final_phase_5": [0, [0, 6.283185307179586]],
    "final_phase_6": [0, [0, 6.283185307179586]],
    "final_phase_7": [0, [0, 6.283185307179586]],
}

BOREALIS_LAYOUT = inspect.cleandoc(
    """
    name template_borealis
    version 1.0
    target borealis (shots=1)
    type tdm (temporal_modes=259, copies=1)

    float array p0[1, 259] =
        {s}
    float array p1[1, 259] =
        {r0}
    float array p2[1, 259] =
        {bs0}
    float array p3[1, 259] =
        {loop1_phase}
    float array p4[1, 259] =
        {r1}
    float array p5[1, 259] =
        {bs1}
    float array p6[1, 259] =
        {loop2_phase}
    float array p7[1, 259] =
        {r2}
    float array p8[1, 259] =
        {bs2}
    float array p9[1, 259] =
        {loop3_phase}


    Sgate({s}, 0.0) | 43
    Rgate({r0}) | 43
    BSgate({bs0}, 1.5707963267948966) | [42, 43]
    Rgate({loop0_phase}) | 43
    Rgate({r1}) | 42
    BSgate({bs1}, 1.5707963267948966) | [36, 42]
    Rgate({loop1_phase}) | 42
    Rgate({r2}) | 36
    BSgate({bs2}, 1.5707963267948966) | [0, 36]
    Rgate({loop2_phase}) | 36
    MeasureFock() | 0
    """
)


def borealis_spec():
    pi = np.pi
    return {
        "target": "borealis",
        "layout": BOREALIS_LAYOUT,
        "modes": {"temporal_max": 331, "concurrent": 44, "spatial": 1},
        "compiler": ["borealis"],
        "compiler_default": "borealis",
        "gate_parameters": {
            "s": [[0, 2]],
            "r0": [[-pi / 2, pi / 2]],
            "bs0": [[0, pi / 2]],
            "loop0_phase": [[-pi, pi]],
            "r1": [[-pi / 2, pi / 2]],
            "bs1": [[0, pi / 2]],
            "loop1_phase": [[-pi, pi]],
            "r2": [[-pi / 2, pi / 2]],
            "bs2": [[0, pi / 2]],
            "loop2_phase": [[-pi, pi]],
        },
    }


def borealis_cert(loop_phases):
    return {
        "target": "borealis",
        "finished_at": "2022-02-03T15:00:59.641616+00:00",
        "loop_phases": [float(x) for x in loop_phases],
        "schmidt_number": 1.333,
        "common_efficiency": 0.55,
        "loop_efficiencies": [0.9, 0.8, 0.7],
        "squeezing_parameters_mean": {"low": [0.1], "high": [0.5], "medium": [0.3]},
        "relative_channel_efficiencies": [],
    }


BOREALIS_DELAYS = [1, 6, 36]
BOREALIS_POS = [43, 42, 36, 0]
BOREALIS_N = 44
BOREALIS_PHI_RANGE = (-PI / 2, PI / 2)  # documented range of the phase modulators

ALL_HW_COMPILERS = ("Xunitary", "Xcov", "Xstrict", "borealis", "TDM", "TD2")


def reset_compilers():
    """the layout is cached at class level (`init_circuit`): forget it before compiling for another device"""
    from strawberryfields.compilers import compiler_db

    for k in ALL_HW_COMPILERS:
        compiler_db[k].reset_circuit()


# ----------------------------------------------------------------------------------------------
# harness-built X-style device specifications
# ----------------------------------------------------------------------------------------------
def clements_pairs(h):
    """rectangular (Clements) mesh on h modes, layer by layer: the order of the X8 layout for h = 4"""
    return [(k, k + 1) for layer in range(h) for k in range(layer % 2, h - 1, 2)]


def x_layout(N, target):
    h = N // 2
    L = ["name template_%dx2" % h, "version 1.0", "target %s (shots=1)" % target, ""]
    for i in range(h):
        L.append("S2gate({squeezing_amplitude_%d}, 0.0) | [%d, %d]" % (i, i, i + h))
    pr = clements_pairs(h)
    for half in (0, h):
        for k, (a, b) in enumerate(pr):
            L.append("MZgate({phase_%d}, {phase_%d}) | [%d, %d]" % (2 * k, 2 * k + 1, half + a, half + b))
    for i in range(N):
        L.append("Rgate({final_phase_%d}) | [%d]" % (i, i))
    L.append("MeasureFock() | [%s]" % ", ".join(str(i) for i in range(N)))
    return "\n".join(L)


def build_x_spec(dev):
    """dev (JSON) -> raw device specification dictionary"""
    N = int(dev["N"])
    h = N // 2
    if dev["kind"] == "X8":
        layout, target = X8_LAYOUT, "X8_01"
    else:
        target = "X%d_vf" % N
        layout = x_layout(N, target)
    if not dev.get("layout_target", True):
        # no target line in the layout: validate_gate_parameters then takes the target of the specification
        layout = "\n".join(ln for ln in layout.split("\n") if not ln.startswith("target "))
    if dev["gp"] == "verbatim":
        gp = {k: list(v) for k, v in X8_GATE_PARAMETERS.items()}
    elif dev["gp"] == "none":
        gp = None
    elif dev["gp"] == "empty":
        gp = {}
    else:
        lo, hi = dev["ph"]
        ph_items = ([0] if dev.get("ph_zero", True) else []) + [[lo, hi]]
        gp = {}
        for i in range(h):
            gp["squeezing_amplitude_%d" % i] = _sq_items(dev, i)
        for k in range(2 * len(clements_pairs(h))):
            gp["phase_%d" % k] = list(ph_items)
        for i in range(N):
            gp["final_phase_%d" % i] = list(ph_items)
    if gp and dev.get("gp_nested"):  # single allowed values written as one-element lists (Device.gate_parameters accepts both)
        gp = {k: [x if isinstance(x, (list, tuple)) else [x] for x in v] for k, v in gp.items()}
    if gp and dev.get("gp_drop") in gp:  # a placeholder of the layout without an entry in gate_parameters
        gp.pop(dev["gp_drop"])
    modes = dict(dev["modes"]) if isinstance(dev.get("modes"), dict) else N  # int, or the documented measurement-limit dictionary
    return {"target": target, "layout": layout, "modes": modes, "compiler": list(dev.get("compilers", [])), "gate_parameters": gp}


def _sq_items(dev, i):
    if dev["gp"] == "verbatim":
        return [0, 1]
    sq = dev["sq"]
    return list(sq[min(i, len(sq) - 1)])


# ----------------------------------------------------------------------------------------------
# conformance oracle (spec dictionary alone)
# ----------------------------------------------------------------------------------------------
DEFAULT_ARGS = {"Sgate": [None, 0.0], "S2gate": [None, 0.0], "BSgate": [PI / 4, 0.0], "Rgate": [None], "MZgate": [None, None],
                "MeasureHomodyne": [None], "MeasureFock": []}


def parse_layout(text):
    """layout text -> [(gate name, [("c", value) | ("p", placeholder) | ("e", expression text)], [modes])]"""
    import blackbird

    bb = blackbird.loads(text)
    out = []
    for o in bb.operations:
        args = []
        for a in o["args"]:
            fs = getattr(a, "free_symbols", None)
            if fs:
                args.append(("p", str(a)) if getattr(a, "is_Symbol", False) else ("e", str(a)))
            else:
                args.append(("c", float(a)))
        out.append((o["op"], args, [int(m) for m in o["modes"]]))
    return out


def range_distance(items, v):
    """distance of v from the union of the allowed single values / closed intervals (0 = inside)"""
    best = float("inf")
    for it in items:
        if isinstance(it, (list, tuple)):
            lo, hi = float(it[0]), float(it[-1])
            d = max(lo - v, v - hi, 0.0)
        else:
            d = abs(v - float(it))
        best = min(best, d)
    return best


def _per_mode(seq):
    d = {}
    for name, modes in seq:
        for m in modes:
            d.setdefault(m, []).append((name, tuple(modes)))
    return d


def _values(p, arrays):
    """numeric values taken by a parameter of a compiled command: a number, or ("arr", k) -> all entries of array k"""
    if isinstance(p, (list, tuple)) and len(p) == 2 and p[0] == "arr":
        return [float(x) for x in np.ravel(np.asarray(arrays[p[1]], dtype=float))]
    return [float(p)]


def conformance(layout_ops, gate_parameters, circ, arrays=None, rtol_const=1e-9):
    """problems of `circ` (op specs; params numeric or ("arr", k)) with respect to the layout: list of (kind, detail);
    kinds: sequence, dagger, constant, range, atol, inconsistent, unknown_placeholder"""
    problems = []
    lseq = [(nm, tuple(m)) for nm, _, m in layout_ops]
    cseq = [(s[0], tuple(s[2])) for s in circ]
    pl, pc = _per_mode(lseq), _per_mode(cseq)
    if pl != pc:
        for m in sorted(set(pl) | set(pc)):
            if pl.get(m) != pc.get(m):
                problems.append(("sequence", "mode %d: layout has %s, circuit has %s" % (m, pl.get(m), pc.get(m))))
                break
        return problems
    # k-th command on mode m of the circuit <-> k-th command on mode m of the layout
    key_of = {}
    cnt = {}
    for i, (nm, modes) in enumerate(lseq):
        for m in modes:
            cnt[m] = cnt.get(m, 0) + 1
        key_of[(modes[0], cnt[modes[0]])] = i
    cnt = {}
    seen = {}
    for s in circ:
        nm, params, modes = s[0], s[1], tuple(s[2])
        flags = s[3] if len(s) > 3 else {}
        for m in modes:
            cnt[m] = cnt.get(m, 0) + 1
        li = key_of[(modes[0], cnt[modes[0]])]
        largs = list(layout_ops[li][1])
        if flags.get("H"):
            problems.append(("dagger", "%s%s | %s is daggered: a layout cannot express that" % (nm, params, list(modes))))
        dflt = DEFAULT_ARGS.get(nm, [])
        for k, p in enumerate(params):
            if k < len(largs):
                kind, val = largs[k]
            elif k < len(dflt) and dflt[k] is not None:
                kind, val = "c", dflt[k]
            else:
                continue
            vals = _values(p, arrays)
            if kind == "c":
                bad = [v for v in vals if abs(v - val) > rtol_const]
                if bad:
                    problems.append(("constant", "%s | %s argument %d is %r, the layout fixes %r" % (nm, list(modes), k, bad[0], val)))
            elif kind == "p":
                if val in seen:
                    old = seen[val]
                    if len(old) != len(vals) or any(abs(a - b) > 1e-9 for a, b in zip(old, vals)):
                        problems.append(("inconsistent", "placeholder %s takes the values %r and %r" % (val, old[:3], vals[:3])))
                else:
                    seen[val] = vals
                if not gate_parameters:
                    continue
                if val not in gate_parameters:
                    problems.append(("unknown_placeholder", val))
                    continue
                for v in vals:
                    d = range_distance(gate_parameters[val], v)
                    if d > 1e-5:
                        problems.append(("range", "%s = %r is outside %r by %.3g" % (val, v, gate_parameters[val], d)))
                        break
                    if d > 1e-9:
                        problems.append(("atol", "%s = %r is outside %r by %.3g" % (val, v, gate_parameters[val], d)))
                        break
    return problems


# ----------------------------------------------------------------------------------------------
# photon-number statistics of a zero-mean Gaussian state (own formula)
# ----------------------------------------------------------------------------------------------
def a_matrix(V):
    """V: xxpp covariance with vacuum = identity.  Returns (A, sqrt(det Q)) with A = X (1 - Q^-1)^* , Q = sigma + 1/2,
    sigma the covariance in the (a_1.., a_1^dag..) ordering"""
    k = len(V) // 2
    T = 0.5 * np.block([[np.eye(k), 1j * np.eye(k)], [np.eye(k), -1j * np.eye(k)]])
    Q = T @ V @ T.conj().T + np.eye(2 * k) / 2
    X = np.block([[np.zeros((k, k)), np.eye(k)], [np.eye(k), np.zeros((k, k))]])
    A = X @ (np.eye(2 * k) - np.linalg.inv(Q)).conj()
    return A, float(np.sqrt(np.linalg.det(Q).real))


def hafnian(M):
    n = len(M)
    if n == 0:
        return 1.0
    if n % 2:
        return 0.0
    tot = 0.0
    rest = list(range(1, n))
    for j in rest:
        if M[0, j] == 0:
            continue
        keep = [x for x in rest if x != j]
        tot = tot + M[0, j] * hafnian(M[np.ix_(keep, keep)])
    return tot


def pattern_prob(A, sdq, pattern):
    k = len(pattern)
    idx = [i for i, n in enumerate(pattern) for _ in range(int(n))]
    idx = idx + [i + k for i in idx]
    f = 1.0
    for n in pattern:
        f *= factorial(int(n))
    return float(np.real(hafnian(A[np.ix_(idx, idx)]) / (f * sdq)))


def low_patterns(k, total):
    """all occupation patterns on k modes with at most `total` photons"""
    out = [[]]
    for _ in range(k):
        out = [p + [n] for p in out for n in range(total + 1) if sum(p) + n <= total]
    return out


def selftest():
    refsim.selftest()
    # closed forms: two-mode squeezed vacuum p(n, n) = tanh^2n r / cosh^2 r ; squeezed vacuum p(2) = tanh^2 r / (2 cosh r)
    r = refsim.Ref(2)
    r.S2gate(0.6, 0.3, 0, 1)
    A, sdq = a_matrix(r.V)
    for n in range(3):
        assert abs(pattern_prob(A, sdq, (n, n)) - np.tanh(0.6) ** (2 * n) / np.cosh(0.6) ** 2) < 1e-12
    assert abs(pattern_prob(A, sdq, (1, 0))) < 1e-14
    r = refsim.Ref(1)
    r.Sgate(0.5, 0.2, 0)
    A, sdq = a_matrix(r.V)
    assert abs(pattern_prob(A, sdq, (2,)) - np.tanh(0.5) ** 2 / (2 * np.cosh(0.5))) < 1e-12
    # GBS state: adjacency block of S2gate(r_i) + U (+) U is U tanh(r) U^T (used as the meaning of BipartiteGraphEmbed)
    th = 0.7
    O = np.array([[np.cos(th), -np.sin(th)], [np.sin(th), np.cos(th)]])
    rs = [0.8, 0.3]
    r = refsim.Ref(4)
    for i in range(2):
        r.S2gate(rs[i], 0.0, i, i + 2)
    r.Interferometer(O, [0, 1])
    r.Interferometer(O, [2, 3])
    A, sdq = a_matrix(r.V)
    assert np.allclose(A[:2, 2:4], O @ np.diag(np.tanh(rs)) @ O.T, atol=1e-12) and np.allclose(A[:2, :2], 0, atol=1e-12)
    assert abs(sum(r.mean_photon(m) for m in range(4)) / 4 - np.mean(np.sinh(rs) ** 2)) < 1e-12
    # own probabilities against thewalrus on a mixed reduced state
    from thewalrus.quantum import density_matrix_element

    mu, V = r.reduced([0, 3])
    A, sdq = a_matrix(V)
    for pat in ([1, 1], [2, 0], [0, 0]):
        assert abs(pattern_prob(A, sdq, pat) - density_matrix_element(mu, V, pat, pat, hbar=2.0).real) < 1e-12
    # conformance oracle on hand-typed inputs
    lay = parse_layout(X8_LAYOUT)
    assert len(lay) == 25 and lay[0] == ("S2gate", [("p", "squeezing_amplitude_0"), ("c", 0.0)], [0, 4])
    circ = _x_layout_ops(8, [1.0, 0.0, 1.0, 1.0], [0.1 * k for k in range(12)], [0.2] * 8)
    assert conformance(lay, X8_GATE_PARAMETERS, circ) == []
    bad = [list(c) for c in circ]
    bad[0] = ["S2gate", [0.5, 0.0], [0, 4], {}]
    assert [p[0] for p in conformance(lay, X8_GATE_PARAMETERS, bad)] == ["range"]
    bad[0] = ["S2gate", [1.0, 0.3], [0, 4], {}]
    assert [p[0] for p in conformance(lay, X8_GATE_PARAMETERS, bad)] == ["constant"]
    bad[0] = ["S2gate", [1.0, 0.0], [4, 0], {}]
    assert [p[0] for p in conformance(lay, X8_GATE_PARAMETERS, bad)] == ["sequence"]
    bad[0] = ["S2gate", [1.0, 0.0], [0, 4], {"H": True}]
    assert [p[0] for p in conformance(lay, X8_GATE_PARAMETERS, bad)] == ["dagger"]
    bad[0] = circ[0]
    bad[10] = ["MZgate", [0.0, 0.15], [4, 5], {}]
    assert [p[0] for p in conformance(lay, X8_GATE_PARAMETERS, bad)] == ["inconsistent"]
    assert conformance(lay, X8_GATE_PARAMETERS, list(reversed(circ[:4])) + circ[4:]) == []
    assert range_distance([0, [0.5, 1.0]], 0.25) == 0.25 and range_distance([0, [0.5, 1.0]], 0.75) == 0.0
    return True


def _x_layout_ops(N, sq, ph, fin):
    """op specs of the X-style layout with the given parameter values"""
    h = N // 2
    out = [["S2gate", [float(sq[i]), 0.0], [i, i + h], {}] for i in range(h)]
    pr = clements_pairs(h)
    for half in (0, h):
        for k, (a, b) in enumerate(pr):
            out.append(["MZgate", [float(ph[2 * k]), float(ph[2 * k + 1])], [half + a, half + b], {}])
    for i in range(N):
        out.append(["Rgate", [float(fin[i])], [i], {}])
    out.append(["MeasureFock", [], list(range(N)), {}])
    return out


# ----------------------------------------------------------------------------------------------
# x_compile: generators
# ----------------------------------------------------------------------------------------------
X_COMPILERS = ["Xstrict", "Xunitary", "Xcov"]


@st.composite
def dev_strategy(draw):
    # gen12: two-digit mode indices (10, 11) and placeholder names (phase_10 .. phase_29, final_phase_10 / _11)
    kind = draw(st.sampled_from(["X8", "gen12", "X8", "X8", "gen4", "gen4", "gen6", "gen6", "gen8", "gen2", "X8", "gen4", "gen6"]))
    N = 8 if kind == "X8" else int(kind[3:])
    h = N // 2
    gp = draw(st.sampled_from((["verbatim"] * 4 if kind == "X8" else []) + ["gen"] * 10 + ["none", "empty"]))
    r0 = draw(st.sampled_from([1.0, 1.0, 0.5, 0.73, 1.3]))
    sq_mode = draw(st.sampled_from(["set", "set", "set", "set", "set_per", "range", "signed_range", "three"]))
    if sq_mode == "set":
        sq = [[0, r0]]
    elif sq_mode == "set_per":
        sq = [[0, draw(st.sampled_from([1.0, 0.5, 0.73, 1.3]))] for _ in range(h)]
    elif sq_mode == "range":
        sq = [[[0, 1.5]]]
    elif sq_mode == "signed_range":
        sq = [[[-1.5, 1.5]]]
    else:
        sq = [[0, r0, 2 * r0]]
    ph = draw(st.sampled_from([[0, TWO_PI]] * 8 + [[0, PI], [0, TWO_PI - 0.5], [0.0, 6.3], [-PI, PI]]))
    dev = {"kind": "X8" if kind == "X8" else "gen", "N": N, "gp": gp, "sq": sq, "ph": ph, "ph_zero": draw(st.booleans()),
           "compilers": draw(st.sampled_from([[], [], ["Xcov"], ["Xstrict"], ["Xunitary", "Xcov"]]))}
    if gp == "verbatim":
        dev.update(sq=[[0, 1]], ph=[0, TWO_PI], ph_zero=True)
    # device.modes: an integer (number of modes) or the documented dictionary of measurement limits (Program.assert_modes)
    md = draw(st.sampled_from(["int"] * 11 + ["dict", "dict", "dict", "dict_tight"]))
    if md == "dict":
        dev["modes"] = {"pnr_max": N + draw(st.sampled_from([0, 0, 2, 4])), "homodyne_max": draw(st.sampled_from([0, 2])), "heterodyne_max": 0}
    elif md == "dict_tight":
        dev["modes"] = {"pnr_max": N - draw(st.sampled_from([1, 2, h])), "homodyne_max": draw(st.sampled_from([0, 2])), "heterodyne_max": 0}
    if gp == "gen":
        v = draw(st.sampled_from(["complete"] * 17 + ["drop", "nested", "nested"]))
        if v == "drop":
            npairs = len(clements_pairs(h))
            names = ["squeezing_amplitude_%d" % draw(st.integers(0, h - 1)), "final_phase_%d" % draw(st.integers(0, N - 1))]
            names += ["phase_%d" % draw(st.integers(0, 2 * npairs - 1))] if npairs else []
            dev["gp_drop"] = draw(st.sampled_from(names))
        elif v == "nested":
            dev["gp_nested"] = True
    if draw(st.integers(0, 11)) == 0:
        dev["layout_target"] = False
    return dev


def _allowed_nonzero(items):
    """strategy of a non-zero allowed squeezing value"""
    singles = [float(x) for x in items if not isinstance(x, (list, tuple)) and float(x) != 0.0]
    ranges = [x for x in items if isinstance(x, (list, tuple))]
    strs = []
    if singles:
        strs.append(st.sampled_from(singles))
    for lo, hi in ranges:
        strs.append(gen.fl(max(lo, 0.05), hi))
        if lo < -0.05:
            strs.append(gen.fl(lo, -0.05))
    return st.one_of(*strs) if strs else st.just(1.0)


@st.composite
def _gate_seq(draw, h, allow_dagger):
    """short BSgate / MZgate / Rgate sequence on the signal modes 0..h-1"""
    L = draw(st.integers(1, 6))
    out = []
    for _ in range(L):
        name = draw(st.sampled_from(["BSgate", "MZgate", "Rgate"] if h > 1 else ["Rgate"]))
        if name == "Rgate":
            modes = [draw(st.integers(0, h - 1))]
            params = [draw(gen.angle())]
        else:
            modes = list(draw(st.permutations(list(range(h))))[:2])
            params = [draw(gen.angle()), draw(gen.angle())]
        flags = {"H": True} if allow_dagger and draw(st.integers(0, 3)) == 0 else {}
        out.append([name, params, modes, flags])
        if name == "Rgate" and draw(st.integers(0, 2)) == 0:
            # a second rotation directly behind the first one (incl. its exact inverse): compile(optimize=True) merges / cancels them
            out.append(["Rgate", [draw(st.sampled_from([-params[0], params[0], 0.5]))], list(modes), {}])
    return out


def _shift(op, h):
    return [op[0], list(op[1]), [m + h for m in op[2]], dict(op[3])]


@st.composite
def _measure_part(draw, n):
    kind = draw(st.sampled_from(["all"] * 12 + ["split", "split", "partial", "homodyne", "trailing_gate", "twice"]))
    allm = list(range(n))
    if kind == "all" or n < 2:
        return "all", [["MeasureFock", [], allm, {}]]
    if kind == "split":
        perm = list(draw(st.permutations(allm)))
        cut = draw(st.integers(1, n - 1))
        return kind, [["MeasureFock", [], perm[:cut], {}], ["MeasureFock", [], perm[cut:], {}]]
    if kind == "partial":
        drop = draw(st.integers(0, n - 1))
        return kind, [["MeasureFock", [], [m for m in allm if m != drop], {}]]
    if kind == "homodyne":
        return kind, [["MeasureFock", [], allm[:-1], {}], ["MeasureHomodyne", [0.0], [n - 1], {}]]
    if kind == "twice":
        return kind, [["MeasureFock", [], allm, {}], ["MeasureFock", [], [0], {}]]
    return kind, [["MeasureFock", [], allm, {}], ["Rgate", [0.3], [0], {}]]


@st.composite
def gbs_source(draw, dev, n):
    """GBS-form source on n modes: squeezers, interferometer part, measurement"""
    h = n // 2
    meta = {"shape": "gbs"}
    allow_dagger = draw(st.booleans())
    phi_mode = draw(st.sampled_from(["zero"] * 13 + ["same", "differ", "differ"]))
    phi_same = draw(st.sampled_from([0.3, PI, -1.0]))
    s2 = []  # (pair, op)
    sgate_pairs = []
    for i in range(h):
        allowed = _sq_items(dev, i)
        t = draw(_allowed_nonzero(allowed))
        kind = draw(st.sampled_from(["single"] * 5 + ["zero", "zero", "missing", "split", "split"] +
                                    (["split_dag", "split_dag", "single_dag"] if allow_dagger else []) + ["bad_value", "as_sgates", "split_phase"]))
        parts = []
        if kind == "single":
            parts = [(t, False)]
        elif kind == "zero":
            parts = [(0.0, False)]
        elif kind == "bad_value":
            # 4e-5, 1e-4: outside by only a few times the documented absolute tolerance (1e-5) of the range test
            off = draw(st.sampled_from([0.21, 1e-4, 0.21, 4e-5]))
            parts = [(t + off, False)]
            if off < 0.1:
                meta["barely_out"] = "squeezing"
        elif kind == "single_dag":
            parts = [(draw(st.sampled_from([t, -t])), True)]
        elif kind in ("split", "split_dag"):
            k = draw(st.integers(2, 3))
            vals = [draw(st.sampled_from([t / 2, t, 0.0, -t, 0.25, 2 * t, t / 4])) for _ in range(k - 1)]
            fl = [kind == "split_dag" and draw(st.booleans()) for _ in range(k)]
            if kind == "split_dag" and not any(fl):
                fl[0] = True
            signed = draw(st.booleans()) or kind == "split"
            if signed:  # the true (signed) sum is the allowed value t
                acc = sum(-v if f else v for v, f in zip(vals, fl))
                last = t - acc
                vals.append(-last if fl[-1] else last)
            else:  # only the sum of the written numbers is allowed: a compiler that honours .H will (rightly) refuse
                vals.append(t - sum(vals))
            parts = list(zip(vals, fl))
        elif kind == "split_phase":
            # squeezers of one pair whose phases differ, one of them with zero amplitude (or amplitudes cancelling before the last):
            # the net operation is S2gate(t, phase of the non-zero one); a compiler may refuse the merge but must not mix up the phases
            pa, pb = draw(st.sampled_from([(0.3, 0.0), (0.0, 0.3), (1.0, 0.3), (0.0, PI)]))
            if draw(st.booleans()):
                parts = [(0.0, False, pa), (t, False, pb)]
            else:
                parts = [(t, False, pa), (-t, False, pa), (t, False, pb)]
            if draw(st.booleans()):
                parts = parts[::-1]
            meta["split_phase"] = True
        elif kind == "as_sgates":
            sgate_pairs.append((i, t))
        for part in parts:
            v, f = part[0], part[1]
            phi = 0.0 if phi_mode == "zero" else (phi_same if phi_mode == "same" else draw(st.sampled_from([0.0, 0.3, 1.0])))
            if len(part) > 2:
                phi = part[2]
            s2.append((i, ["S2gate", [float(v), phi], [i, i + h], {"H": True} if f else {}]))
    s2 = list(draw(st.permutations(s2))) if s2 else []
    pair_mode = draw(st.sampled_from(["ok"] * 24 + ["reversed", "wrong"]))
    if s2 and pair_mode != "ok":
        j = draw(st.integers(0, len(s2) - 1))
        i, op = s2[j]
        op = [op[0], op[1], [op[2][1], op[2][0]] if pair_mode == "reversed" else [op[2][0], (op[2][0] + 1) % n], op[3]]
        if op[2][0] != op[2][1]:
            s2[j] = (i, op)
            meta["s2_modes"] = pair_mode
    ops_ = [op for _, op in s2]
    # an operation caught between two squeezers of the same pair; the numbers written in the three commands add up to an
    # allowed squeezing value (the true net squeezing does not)
    special = draw(st.sampled_from(["none"] * 14 + ["stuck", "stuck", "pre_op", "one_half", "one_half", "one_half", "empty", "identity_ops"]))
    stray, stray_where = [], None
    if special == "one_half":
        # a non-bipartite part (single-mode squeezing / two-mode squeezing inside one half) that sits in ONE half of the register only.
        # "exact": the pairs of the touched modes carry no two-mode squeezing, so the other half stays completely free of internal
        # coupling (adjacency blocks B00 != 0, B11 == 0 or the other way round); "mixed": the pair squeezers stay
        half = draw(st.sampled_from([0, h]))
        what = draw(st.sampled_from(["sgate", "sgate", "s2_inside", "sgates_all"] if h > 1 else ["sgate"]))
        amp = draw(st.sampled_from([0.3, -0.4, 0.8, 1e-3]))
        sphi = draw(st.sampled_from([0.0, 0.0, 0.7]))
        i = draw(st.integers(0, h - 1))
        if what == "sgate":
            touched, stray = [i], [["Sgate", [amp, sphi], [half + i], {}]]
        elif what == "s2_inside":
            j = (i + draw(st.integers(1, h - 1))) % h
            touched, stray = [i, j], [["S2gate", [amp, sphi], [half + i, half + j], {}]]
        else:
            touched, stray = list(range(h)), [["Sgate", [amp, sphi], [half + k], {}] for k in range(h)]
        exact = draw(st.integers(0, 3)) > 0
        if exact:
            tm = {m for k in touched for m in (k, k + h)}
            ops_ = [op for op in ops_ if not (op[0] == "S2gate" and set(op[2]) & tm)]
            sgate_pairs = [(k, t) for k, t in sgate_pairs if k not in touched]
        stray_where = draw(st.sampled_from(["after_s2", "after_s2", "first", "last"]))
        if stray_where == "first":
            ops_ = stray + ops_
        elif stray_where == "after_s2":
            ops_ = ops_ + stray
        meta.update(one_half="exact" if exact else "mixed", stray=what + ("_idler" if half else "_signal"))
    if special == "empty":  # nothing but the measurement
        ops_, sgate_pairs = [], []
        meta["special"] = "measure_only"
    if special == "identity_ops":  # commands whose net effect is the identity
        ops_, sgate_pairs = [], []
        for _ in range(draw(st.integers(1, 3))):
            i = draw(st.integers(0, h - 1))
            g = draw(st.sampled_from(["S2gate", "Rgate", "BSgate"] if h > 1 else ["S2gate", "Rgate"]))
            if g == "S2gate":
                ops_.append(["S2gate", [0.0, 0.0], [i, i + h], {}])
            elif g == "Rgate":
                ops_ += [["Rgate", [0.0], [i], {}], ["Rgate", [0.0], [i + h], {}]]
            else:
                j = (i + 1) % h
                ops_ += [["BSgate", [0.0, 0.0], [i, j], {}], ["BSgate", [0.0, 0.0], [i + h, j + h], {}]]
        meta["special"] = "identity_ops"
    if special == "stuck":
        i = draw(st.integers(0, h - 1))
        t = draw(_allowed_nonzero(_sq_items(dev, i)))
        th = draw(st.sampled_from([0.4, 0.25, t / 2]))
        a = draw(st.sampled_from([t, t / 2, 0.0]))
        which = draw(st.sampled_from(["BSgate_pair", "BSgate_pair", "Rgate", "MZgate_pair", "BSgate_half"]))
        if which == "Rgate":
            g = ["Rgate", [th], [i], {}]
        elif which == "BSgate_half" and h > 1:
            g = ["BSgate", [th, 0.0], [i, (i + 1) % h], {}]
        elif which == "MZgate_pair":
            g = ["MZgate", [th, 0.0], [i, i + h], {}]
        else:
            g = ["BSgate", [th, 0.0], [i, i + h], {}]
        ops_ = [op for op in ops_ if not (op[0] == "S2gate" and i in op[2])]
        pos = draw(st.integers(0, len(ops_)))
        ops_[pos:pos] = [["S2gate", [float(a), 0.0], [i, i + h], {}], g, ["S2gate", [float(t - a - th), 0.0], [i, i + h], {}]]
        meta["stuck"] = which
    # passive operation on the vacuum before the squeezers (changes nothing physically)
    if special == "pre_op":
        ops_.insert(0, ["Rgate", [0.7], [draw(st.integers(0, n - 1))], {}])
        meta["pre_op"] = True
    # squeezers written as BS - Sgate x Sgate - BS (Xcov only accepts Sgate)
    for i, t in sgate_pairs:
        dag_form = allow_dagger and draw(st.booleans())
        first = ["BSgate", [PI / 4, 0.0], [i, i + h], {"H": True}] if dag_form else ["BSgate", [-PI / 4, 0.0], [i, i + h], {}]
        ops_ += [first, ["Sgate", [float(t), 0.0], [i], {}], ["Sgate", [-float(t), 0.0], [i + h], {}], ["BSgate", [PI / 4, 0.0], [i, i + h], {}]]
        meta["sgates"] = True
    # interferometer part
    ureal = draw(st.sampled_from(["interf", "interf", "interf", "gates", "gates", "none"]))
    asym = draw(st.sampled_from(["none"] * 10 + ["idler_other", "idler_phase", "cross", "idler_missing"]))
    if special in ("empty", "identity_ops"):
        ureal, asym = "none", "none"
    elif special == "one_half":
        asym = "none"  # the stray squeezing is the only reason for a refusal
    meta["asym"] = asym
    ukind = "identity"
    sig, idl = [], []
    if ureal == "interf":
        ukind, U = draw(gen.unitary(h, kinds=["haar", "haar", "identity", "perm", "perm", "permdiag", "block", "diag", "orth", "single_bs", "bs_product"]))
        modes = list(draw(st.permutations(list(range(h))))) if draw(st.integers(0, 3)) == 0 else list(range(h))
        sig = [["Interferometer", [spec.enc_matrix(U)], modes, {}]]
        if asym == "idler_other":
            _, U2 = draw(gen.unitary(h, kinds=["haar", "perm", "diag"]))
            idl = [["Interferometer", [spec.enc_matrix(U2)], [m + h for m in modes], {}]]
        else:
            idl = [_shift(sig[0], h)]
        if draw(st.integers(0, 5)) == 0:  # a second layer of gates behind the interferometers
            extra = draw(_gate_seq(h, allow_dagger))
            sig += extra
            idl += [_shift(g, h) for g in extra]
            ukind = "mixed"
    elif ureal == "gates":
        sig = draw(_gate_seq(h, allow_dagger))
        idl = [_shift(g, h) for g in sig]
        ukind = "gates"
        if asym == "idler_other":
            idl = [_shift(g, h) for g in draw(_gate_seq(h, allow_dagger))]
    if asym == "idler_missing":
        idl = []
    if asym == "idler_phase":
        idl.append(["Rgate", [0.5], [h + draw(st.integers(0, h - 1))], {}])
    # order-preserving interleaving of the two halves
    body = []
    a, b = list(sig), list(idl)
    while a or b:
        take_a = bool(a) and (not b or draw(st.booleans()))
        body.append(a.pop(0) if take_a else b.pop(0))
    if asym == "cross":
        body.insert(draw(st.integers(0, len(body))), ["BSgate", [0.4, 0.0], [0, h], {}])
    ops_ += body
    if stray_where == "last":
        ops_ += stray
    mkind, meas = draw(_measure_part(n))
    if special in ("empty", "identity_ops", "one_half") and mkind != "all":
        mkind, meas = "all", [["MeasureFock", [], list(range(n)), {}]]
    meta.update(unitary=ukind, measure=mkind)
    return ops_ + meas, meta, None


@st.composite
def bipartite_source(draw, dev, n):
    """BipartiteGraphEmbed(A) with A = O tanh(r) O^T and the mean photon number of that state: its documented meaning is
    the circuit S2gate(r_i) | (i, i + h), O on both halves"""
    h = n // 2
    rs = []
    for i in range(h):
        t = draw(_allowed_nonzero(_sq_items(dev, i)))
        rs.append(abs(float(t)) if draw(st.integers(0, 3)) else 0.0)
    if not any(rs):
        rs[0] = 0.5
    if len(set(rs)) < len(rs) and draw(st.booleans()):  # distinct values: the decomposition is unique up to signs
        rs = [r * (1 + 0.1 * i) if r else 0.0 for i, r in enumerate(rs)]
    if h == 1:
        kind, O = "identity", np.array([[draw(st.sampled_from([1.0, -1.0]))]])
    else:
        kind, O = draw(gen.unitary(h, kinds=["orth", "orth", "identity", "perm"]))
        O = np.real(O)
    A = O @ np.diag(np.tanh(rs)) @ O.T
    A = (A + A.T) / 2
    mp = float(np.mean(np.sinh(rs) ** 2))
    edges = draw(st.booleans())
    full = np.block([[np.zeros((h, h)), A], [A.T, np.zeros((h, h))]])
    src = [["BipartiteGraphEmbed", [spec.enc_matrix(A if edges else full)], list(range(n)), {"kw": {"mean_photon_per_mode": mp, "edges": edges}}],
           ["MeasureFock", [], list(range(n)), {}]]
    ref = [["S2gate", [float(r), 0.0], [i, i + h], {}] for i, r in enumerate(rs)]
    ref += [["Interferometer", [spec.enc_matrix(O)], list(range(h)), {}], ["Interferometer", [spec.enc_matrix(O)], list(range(h, n)), {}]]
    return src, {"shape": "bipartite", "unitary": kind, "asym": "none", "measure": "all"}, ref


LAYOUT_MUTATIONS = ["none"] * 6 + ["reorder"] * 4 + ["split_measure", "s2_phase", "dagger", "dagger", "idler_phase", "phase_out", "sq_out",
                                                     "swap_modes", "drop", "extra", "near_range", "bs_for_mz", "barely_out", "barely_out", "split_final", "split_final"]


@st.composite
def layout_source(draw, dev, n):
    """source already in the form of the X-style layout for n modes, with at most one mutation"""
    h = n // 2
    pairs = clements_pairs(h)
    lo, hi = dev["ph"]
    sq = []
    for i in range(h):
        items = _sq_items(dev, i)
        t = draw(_allowed_nonzero(items))
        zero_ok = range_distance(items, 0.0) == 0.0
        sq.append(0.0 if zero_ok and draw(st.integers(0, 2)) == 0 else float(t))

    def phase():
        # multiples of 1e-3 (or the end points): two phases are equal or differ by far more than the 1e-5 within which the
        # compilers regard the unitaries of the two halves as identical
        v = draw(st.one_of(st.sampled_from([lo, hi, (lo + hi) / 2]), gen.fl(lo, hi), gen.fl(lo, hi)))
        w = round(v, 3)
        return v if v in (lo, hi) or not lo <= w <= hi else w

    ph = [phase() for _ in range(2 * len(pairs))]
    fin = [phase() for _ in range(n)]
    if draw(st.integers(0, 2)) > 0:
        fin = fin[:h] + fin[:h]
    ops_ = _x_layout_ops(n, sq, ph, fin)
    mut = draw(st.sampled_from(LAYOUT_MUTATIONS))
    gates = list(range(len(ops_) - 1))
    j = draw(st.sampled_from(gates))
    if mut == "reorder":
        prio = list(draw(st.permutations(gates)))
        done, order = set(), []
        last_on = {}
        deps = {}
        for i in gates:
            deps[i] = {last_on[m] for m in ops_[i][2] if m in last_on}
            for m in ops_[i][2]:
                last_on[m] = i
        while len(order) < len(gates):
            i = next(i for i in prio if i not in done and deps[i] <= done)
            done.add(i)
            order.append(i)
        ops_ = [ops_[i] for i in order] + [ops_[-1]]
    elif mut == "split_measure" and n >= 2:
        ops_ = ops_[:-1] + [["MeasureFock", [], list(range(1, n)), {}], ["MeasureFock", [], [0], {}]]
    elif mut == "s2_phase":
        k = draw(st.integers(0, h - 1))
        ops_[k] = ["S2gate", [ops_[k][1][0], draw(st.sampled_from([0.3, PI, 1e-3]))], ops_[k][2], {}]
    elif mut == "dagger":
        ops_[j] = [ops_[j][0], ops_[j][1], ops_[j][2], {"H": True}]
    elif mut == "idler_phase" and pairs:
        k = h + len(pairs) + draw(st.integers(0, len(pairs) - 1))
        ops_[k] = ["MZgate", [ops_[k][1][0] + 0.1, ops_[k][1][1]], ops_[k][2], {}]
    elif mut == "barely_out" and draw(st.booleans()):
        # a squeezing amplitude outside by a few times the documented absolute tolerance (1e-5) of the range test
        k = draw(st.integers(0, h - 1))
        ops_[k] = ["S2gate", [ops_[k][1][0] + draw(st.sampled_from([4e-5, 1e-4, -4e-5])), 0.0], ops_[k][2], {}]
    elif mut in ("phase_out", "near_range", "barely_out"):
        k = draw(st.integers(h, len(ops_) - 2))
        off = 0.5 if mut == "phase_out" else (3e-6 if mut == "near_range" else draw(st.sampled_from([4e-5, 1e-4])))
        v = hi + off if draw(st.booleans()) else lo - off
        twin = {tuple(m + h for m in ops_[k][2]), tuple(m - h for m in ops_[k][2])}
        for kk in range(h, len(ops_) - 1):  # the same placeholder / the final phase of the partner mode as well
            if kk == k or (tuple(ops_[kk][2]) in twin and ops_[kk][1][1:] == ops_[k][1][1:] and ops_[kk][0] == ops_[k][0]):
                ops_[kk] = [ops_[kk][0], [v] + list(ops_[kk][1][1:]), ops_[kk][2], {}]
    elif mut == "sq_out":
        k = draw(st.integers(0, h - 1))
        ops_[k] = ["S2gate", [ops_[k][1][0] + 0.21, 0.0], ops_[k][2], {}]
    elif mut == "swap_modes" and pairs:
        k = h + draw(st.integers(0, 2 * len(pairs) - 1))
        ops_[k] = [ops_[k][0], ops_[k][1], [ops_[k][2][1], ops_[k][2][0]], {}]
    elif mut == "drop":
        ops_.pop(j)
    elif mut == "extra":
        ops_.insert(j, ["Rgate", [0.3], [ops_[j][2][0]], {}])
    elif mut == "bs_for_mz" and pairs:
        k = h + draw(st.integers(0, 2 * len(pairs) - 1))
        ops_[k] = ["BSgate", ops_[k][1], ops_[k][2], {}]
    elif mut == "split_final":
        k = len(ops_) - 2 - draw(st.integers(0, n - 1))  # one of the final Rgates
        a = draw(st.sampled_from([0.25, 1.0, ops_[k][1][0]]))
        ops_[k:k + 1] = [["Rgate", [ops_[k][1][0] - a], ops_[k][2], {}], ["Rgate", [a], ops_[k][2], {}]]
    return ops_, {"shape": "layout", "mutation": mut, "unitary": "layout", "asym": "none", "measure": "all"}, None


@st.composite
def x_case(draw):
    dev = draw(dev_strategy())
    N = dev["N"]
    n = draw(st.sampled_from([N] * 14 + [max(2, N - 2), N + 2]))
    compiler = draw(st.sampled_from(["Xunitary", "Xunitary", "Xcov", "Xcov", "Xstrict"]))
    if compiler == "Xstrict":
        shape = draw(st.sampled_from(["layout"] * 5 + ["gbs"]))
    else:
        shape = draw(st.sampled_from(["gbs"] * 6 + ["layout", "layout", "bipartite"]))
    if shape == "bipartite" and dev["gp"] == "gen" and draw(st.booleans()):
        dev["sq"] = [[[-1.5, 1.5]]]  # the embedding uses negative squeezing parameters
    src, meta, ref = draw({"gbs": gbs_source, "layout": layout_source, "bipartite": bipartite_source}[shape](dev, n))
    k = draw(st.integers(1, min(5, n)))
    sub = sorted(draw(st.permutations(list(range(n))))[:k])
    extra = []
    for _ in range(6):
        pat = [0] * k
        for _ in range(4):
            pat[draw(st.integers(0, k - 1))] += 1
        extra.append(pat)
    case = {"dev": dev, "n": n, "compiler": compiler, "ops": src, "meta": meta, "sub_modes": sub, "patterns4": extra,
            "hbar": draw(st.sampled_from([2.0, 2.0, 2.0, 1.0, 0.5]))}
    # compile(device=..) without a compiler argument: the documented default is the first entry of the device's compiler list,
    # "Xunitary" when the list is empty
    if draw(st.integers(0, 6)) < 2:
        others = [c for c in X_COMPILERS if c != compiler]
        if compiler == "Xunitary" and draw(st.booleans()):
            dev["compilers"] = []
        else:
            dev["compilers"] = [compiler] + draw(st.sampled_from([[], others[:1], others[1:], others, others[::-1]]))
        case["compiler_arg"] = "default"
    if draw(st.integers(0, 7)) == 0 or (meta.get("mutation") == "split_final" and draw(st.integers(0, 2)) > 0):
        case["optimize"] = True
    if ref is not None:
        case["ref_ops"] = ref
    return case


# ----------------------------------------------------------------------------------------------
# x_compile: oracle
# ----------------------------------------------------------------------------------------------
MEASURES = ("MeasureFock", "MeasureHomodyne", "MeasureHeterodyne", "MeasureThreshold")


def _gate_part(oplist):
    """commands in front of the first measurement"""
    out = []
    for s in oplist:
        if s[0] in MEASURES:
            break
        out.append(s)
    return out


def _strip_dagger(oplist, which):
    """copy of oplist with the .H flag removed from the commands selected by `which(index, op)`"""
    out = []
    for i, s in enumerate(oplist):
        fl = dict(s[3]) if len(s) > 3 else {}
        if fl.get("H") and which(i, s):
            fl.pop("H")
        out.append([s[0], s[1], s[2], fl])
    return out


def _stuck_ops(gates):
    """indices of non-S2gate commands that depend on an S2gate and on which a later S2gate depends (mode-sharing DAG):
    these cannot be moved out of the squeezer block"""
    n = len(gates)
    anc = [False] * n  # has an S2gate ancestor (or is one)
    reach = [set() for _ in range(n)]
    for j in range(n):
        for i in range(j):
            if set(gates[i][2]) & set(gates[j][2]):
                reach[j] |= reach[i] | {i}
        anc[j] = any(gates[i][0] == "S2gate" for i in reach[j])
    out = []
    for i in range(n):
        if gates[i][0] == "S2gate" or not anc[i]:
            continue
        if any(gates[j][0] == "S2gate" and i in reach[j] for j in range(i + 1, n)):
            out.append(i)
    return out


def _x_state_diff(a, b, compiler, case):
    """(difference, what) between two refsim states by the criterion of the compiler"""
    if compiler in ("Xstrict", "Xunitary"):
        scale = max(1.0, float(np.max(np.abs(a.V))))
        return float(np.max(np.abs(a.V - b.V))) / scale, "covariance"
    Na, Ma, _ = a.NM()
    Nb, Mb, _ = b.NM()
    # relative to the size of the moments, and to the conditioning of the route through the A matrix: merged S2gates with a total
    # r of 4.5 .. 6.5 give <n> ~ 2e3 .. 1e5 and Xcov (cov -> Q^-1 -> takagi -> arctanh) returns them with a relative rounding error
    # of about eps * <n>^2 (measured 9e-10 and 3.7e-6).  The allowance below is 500 eps <n>^2 on top of the usual 1e-7.
    scale = max(1.0, float(np.max(np.abs(Na))), float(np.max(np.abs(Ma))))
    d = max(float(np.max(np.abs(np.abs(Na) - np.abs(Nb)))), float(np.max(np.abs(np.abs(Ma) - np.abs(Mb))))) / scale
    d = max(0.0, d - 1e-13 * scale ** 2)
    what = "|N|,|M|"
    sub = [m for m in case["sub_modes"] if m < a.n]
    if sub:
        _, Va = a.reduced(sub)
        _, Vb = b.reduced(sub)
        Aa, qa = a_matrix(Va / (a.h / 2))
        Ab, qb = a_matrix(Vb / (b.h / 2))
        pats = low_patterns(len(sub), 3) + [p[:len(sub)] for p in case.get("patterns4", []) if len(p) >= len(sub)]
        for pat in pats:
            dp = abs(pattern_prob(Aa, qa, pat) - pattern_prob(Ab, qb, pat))
            if dp > d:
                d, what = dp, "P(%s on modes %s)" % (pat, sub)
    return d, what


def _source_labels(case, gates):
    labs = ["compiler:" + case["compiler"], "shape:" + case["meta"].get("shape", "?"), "N:%d" % case["dev"]["N"],
            "dev:" + case["dev"]["kind"], "gp:" + case["dev"]["gp"]]
    s2 = [g for g in gates if g[0] == "S2gate"]
    if any(g[1][0] == 0 for g in s2) or len({tuple(sorted(g[2])) for g in s2}) < case["n"] // 2:
        labs.append("zero_squeezing")
    if len({tuple(g[2]) for g in s2}) < len(s2):
        labs.append("repeated_s2")
    if any((g[3] if len(g) > 3 else {}).get("H") for g in gates):
        labs.append("dagger")
    if case["meta"].get("unitary") in ("perm", "permdiag"):
        labs.append("permutation_unitary")
    for key in ("unitary", "asym", "measure", "mutation", "stuck", "one_half", "stray", "special", "barely_out"):
        if case["meta"].get(key) not in (None, "none"):
            labs.append("%s:%s" % (key, case["meta"][key]))
    if case["meta"].get("one_half"):
        labs.append("non_bipartite_part_in_one_half")
    if case["meta"].get("mutation") == "barely_out" or case["meta"].get("barely_out"):
        labs.append("value_just_outside_documented_atol")
    if case.get("compiler_arg", "explicit") == "default":
        labs += ["compiler_arg:default", "default_compiler_list:%d" % len(case["dev"].get("compilers", []))]
    if case.get("optimize"):
        labs.append("optimize")
    if isinstance(case["dev"].get("modes"), dict):
        labs.append("modes:dict" + ("_tight" if case["dev"]["modes"]["pnr_max"] < case["dev"]["N"] else ""))
    if case["dev"].get("gp_drop"):
        labs.append("gp:placeholder_without_entry")
    if case["dev"].get("gp_nested"):
        labs.append("gp:nested_single_values")
    if not case["dev"].get("layout_target", True):
        labs.append("layout_without_target_line")
    if {m for g in gates for m in g[2]} != set(range(case["n"])):
        labs.append("source_leaves_modes_untouched")
    if any(m >= 10 for g in gates for m in g[2]):
        labs.append("two_digit_mode_index")
    if case["n"] != case["dev"]["N"]:
        labs.append("modes_differ_from_device")
    if case.get("hbar", 2.0) != 2.0:
        labs.append("hbar_not_2")
    return labs


def _must_accept(case, layout_ops, gp, src):
    """is the source itself exactly in layout form, all parameters inside the ranges (own test)?  Then Xstrict must accept
    it; Xunitary / Xcov must accept it when in addition any unitary can be mapped into the phase ranges and (Xcov, which
    may permute the squeezers) all squeezers share one allowed set, and the final phases are the same on both halves"""
    dev = case["dev"]
    if case["n"] != dev["N"] or not gp:
        return False
    if isinstance(dev.get("modes"), dict) and dev["modes"]["pnr_max"] < case["n"]:
        return False  # more Fock measurements than the device allows: a documented refusal
    if any(s[0] not in ("S2gate", "MZgate", "Rgate", "MeasureFock") for s in src) or src[-1][0] != "MeasureFock":
        return False
    if conformance(layout_ops, gp, src):
        return False
    if case["compiler"] == "Xstrict":
        return True
    h = dev["N"] // 2
    full_phase = all(range_distance(v, 0.0) == 0 and range_distance(v, TWO_PI) == 0 and range_distance(v, 3.0) == 0
                     for k, v in gp.items() if "phase" in k)
    fin = {s[2][0]: s[1][0] for s in src if s[0] == "Rgate"}
    sym = all(abs(fin[i] - fin[i + h]) < 1e-12 for i in range(h))
    same_sets = all(gp["squeezing_amplitude_%d" % i] == gp["squeezing_amplitude_0"] for i in range(h))
    return full_phase and sym and (case["compiler"] == "Xunitary" or same_sets)


def check_x(ctx, case):
    from strawberryfields.device import Device
    from strawberryfields.program_utils import CircuitError

    dev, n, compiler, src = case["dev"], case["n"], case["compiler"], case["ops"]
    sd = build_x_spec(dev)
    gp = sd["gate_parameters"]
    layout_ops = parse_layout(sd["layout"])
    gates = _gate_part(src)
    labels = _source_labels(case, gates)
    stuck = _stuck_ops(gates) if compiler == "Xunitary" else []
    s2pairs = [tuple(g[2]) for g in gates if g[0] == "S2gate"]
    multi = len({p for p in s2pairs if s2pairs.count(p) >= 2}) if compiler == "Xunitary" else 0
    multi = multi if multi >= 2 else 0
    must = _must_accept(case, layout_ops, gp, src)
    if must:
        labels.append("source_in_layout_form")
    reset_compilers()
    comp = None
    try:
        with sfrun.HbarCtx(case.get("hbar", 2.0)):
            prog = spec.build_program(n, src)
            kw = {"optimize": True} if case.get("optimize") else {}
            comp = prog.compile(device=Device(spec=sd), compiler=compiler if case.get("compiler_arg", "explicit") == "explicit" else None, **kw)
    except (CircuitError, ValueError) as exc:
        ctx.note(case, False, labels + ["rejected", "rejected:" + type(exc).__name__])
        if must:
            return ctx.fail("rejects_layout_form.%s" % compiler, "the source is exactly in layout form with every parameter inside the "
                            "ranges of the specification, but compilation raised %s: %s" % (type(exc).__name__, str(exc)[:200]))
        return None
    except Exception as exc:  # pylint: disable=broad-except
        ctx.note(case, True, labels + ["crashed"])
        if stuck:
            return ctx.fail("F18.xunitary.non_s2_op_inside_squeezer_block", "command %s sits between two S2gates and cannot be moved out; "
                            "Xunitary treats it as an S2gate: %s: %s" % (gates[stuck[0]][:3], type(exc).__name__, str(exc)[:120]))
        if multi and isinstance(exc, IndexError):
            return ctx.fail("xunitary.s2gate_merge_stale_indices", "S2gates are repeated on %d different mode pairs: the merge loop pops by "
                            "indices computed before earlier pops: IndexError: %s" % (multi, str(exc)[:80]))
        return ctx.crash(exc, "compile." + compiler)
    finally:
        reset_compilers()
    cs = spec.circuit_to_specs(comp.circuit)
    cgates = _gate_part(cs)

    def norm(ol):
        return [(s[0], [round(float(p), 12) if isinstance(p, (int, float)) else None for p in s[1]], list(s[2]), bool((s[3] if len(s) > 3 else {}).get("H"))) for s in ol]

    resyn = norm(cs) != norm(src)
    nonzero = any(s[0] == "S2gate" and abs(s[1][0]) > 1e-9 for s in cgates)
    labels += ["accepted"] + (["resynthesised"] if resyn else ["unchanged"])
    # ---- (1) conformance
    problems = conformance(layout_ops, gp, cs)
    kinds = [p[0] for p in problems]
    if "atol" in kinds:
        labels.append("inside_only_by_documented_atol")
    ctx.note(case, nontrivial=resyn and nonzero, labels=labels)
    # ---- (0) the compiler that was used, mode / measurement count limits (independent of gate_parameters)
    if case.get("compiler_arg", "explicit") == "default":
        used = (comp.compile_info or (None, None))[1]
        if used != compiler:
            return ctx.fail("default_compiler.wrong_compiler_used", "compile(device=..) without a compiler: the device lists %r (documented default: "
                            "first entry, Xunitary for an empty list), but compile_info names %r" % (dev.get("compilers", []), used))
    dmodes = dev.get("modes")
    if isinstance(dmodes, dict):
        n_fock = sum(len(s[2]) for s in src if s[0] == "MeasureFock")
        n_hom = sum(len(s[2]) for s in src if s[0] == "MeasureHomodyne")
        if n_fock > dmodes["pnr_max"] or n_hom > dmodes["homodyne_max"]:
            return ctx.fail("measurement_limit_not_enforced", "the source measures %d modes with MeasureFock and %d with MeasureHomodyne, the device allows "
                            "%d / %d, but compilation succeeded" % (n_fock, n_hom, dmodes["pnr_max"], dmodes["homodyne_max"]))
    elif n > dev["N"]:
        return ctx.fail("mode_limit_not_enforced", "a program with %d modes was compiled for a device with %d modes" % (n, dev["N"]))
    hard = [p for p in problems if p[0] != "atol"]
    if hard:
        kind, detail = hard[0]
        if stuck:
            return ctx.fail("F18.xunitary.non_s2_op_inside_squeezer_block", "command %s sits between two S2gates; compiled circuit: %s" % (gates[stuck[0]][:3], detail))
        if not gp and kind in ("sequence", "inconsistent", "dagger"):
            # open finding X2; the returned circuit may in addition be a different experiment than the source: fall through to (3)
            ctx.fail("conformance.no_layout_check_without_gate_parameters", "device specification without gate_parameters: %s returned a "
                     "circuit that does not match the device layout (%s)" % (compiler, detail))
        elif kind == "dagger":
            return ctx.fail("conformance.daggered_gate_passes_validation", "%s: %s" % (compiler, detail))
        elif kind == "constant":
            # open finding X1 (a hard-coded layout argument is not compared): the returned circuit may still be a different experiment
            # than the source, which is a separate violation - fall through to (3) after reporting X1
            ctx.fail("conformance.hardcoded_layout_argument_not_checked.x_compilers", "%s: %s" % (compiler, detail))
        else:
            return ctx.fail("conformance.%s.%s" % (kind, compiler), detail)
    # ---- (3) same experiment
    ref_src_ops = case.get("ref_ops") or gates
    try:
        a = spec.ref_run(n, ref_src_ops)
        b = spec.ref_run(n, cgates)
    except refsim.RefError as exc:
        return ctx.fail("compiled_unknown_op.%s" % compiler, str(exc))
    d, what = _x_state_diff(a, b, compiler, case)
    if d <= 1e-7:
        return None
    detail = "%s of source and compiled circuit differ by %.3g" % (what, d)
    if stuck:
        return ctx.fail("F18.xunitary.non_s2_op_inside_squeezer_block", "command %s sits between two S2gates and is summed into the squeezing: %s" % (gates[stuck[0]][:3], detail))
    if multi:
        return ctx.fail("xunitary.s2gate_merge_stale_indices", "S2gates are repeated on %d different mode pairs; the merged squeezers are wrong: %s" % (multi, detail))
    dag = [i for i, g in enumerate(gates) if (g[3] if len(g) > 3 else {}).get("H")]
    if dag and "ref_ops" not in case:
        pairs = [tuple(g[2]) for g in gates if g[0] == "S2gate"]
        merged = {i for i in dag if gates[i][0] == "S2gate" and pairs.count(tuple(gates[i][2])) >= 2}
        others = {i for i in dag if gates[i][0] != "S2gate"}
        if compiler == "Xcov":
            others = set(dag)
            merged = set()
        for sel, sig in ((merged, "merge"), (others, "gu"), (merged | others, "gu")):
            if not sel or (sig == "gu" and not others):
                continue
            pred = spec.ref_run(n, _strip_dagger(gates, lambda i, s, sel=sel: i in sel))
            dp, _ = _x_state_diff(pred, b, compiler, case)
            if dp > 1e-7:
                continue
            g = gates[sorted(sel if sig == "merge" else others)[0]]
            if sig == "merge":
                return ctx.fail("F17.xunitary.s2gate_merge_ignores_dagger", "%s; the compiled circuit equals the source with the .H of the repeated %s%s | %s ignored" % (detail, g[0], g[1], g[2]))
            return ctx.fail("F17.gaussian_unitary_ignores_dagger.%s" % compiler, "%s; the compiled circuit equals the source with the .H of %s%s | %s "
                            "ignored (the symplectic matrix is computed by the GaussianUnitary compiler)" % (detail, g[0], g[1] if g[0] != "Interferometer" else "", g[2]))
    return ctx.fail("different_experiment.%s" % compiler, detail + " (source: %d commands, shape %s)" % (len(gates), case["meta"].get("shape")))


# ----------------------------------------------------------------------------------------------
# time-domain programs: reading compiled TDM circuits, explicit-loop reference
# ----------------------------------------------------------------------------------------------
def tdm_specs(circuit):
    """TDM circuit -> op specs whose parameters are numbers or ("arr", k) for the loop variable p<k>"""
    from strawberryfields.parameters import par_evaluate

    out = []
    for c in circuit:
        ps = []
        for x in c.op.p:
            nm = x if isinstance(x, str) else getattr(x, "name", None)  # compiled measurements carry the bare name
            if isinstance(nm, str) and nm[:1] == "p" and nm[1:].isdigit():
                ps.append(("arr", int(nm[1:])))
            else:
                ps.append(float(par_evaluate(x)))
        flags = {"H": True} if getattr(c.op, "dagger", False) else {}
        out.append([c.op.__class__.__name__, ps, [r.ind for r in c.reg], flags])
    return out


class LoopRef:
    """explicit loop: every pulse is a fresh mode, a command on register position j at time bin t acts on pulse t + j;
    gates are the documented maps of refsim, applied to the rows / columns they touch only (vacuum = identity)"""

    def __init__(self, n):
        self.n = n
        self.V = np.eye(2 * n)

    def gate(self, name, p, modes, dagger=False):
        sg = -1.0 if dagger else 1.0
        if name == "Sgate":
            A, B = [[np.cosh(p[0])]], [[-np.exp(1j * (p[1] if len(p) > 1 else 0.0)) * np.sinh(sg * p[0])]]
        elif name == "Rgate":
            A, B = [[np.exp(1j * sg * p[0])]], [[0.0]]
        elif name == "BSgate":
            A, B = refsim.bs_unitary(sg * p[0], p[1] if len(p) > 1 else 0.0), np.zeros((2, 2))
        else:
            raise refsim.RefError("loop reference does not know %s" % name)
        S = refsim.bogoliubov_to_symplectic(A, B)
        idx = list(modes) + [m + self.n for m in modes]
        self.V[idx, :] = S @ self.V[idx, :]
        self.V[:, idx] = self.V[:, idx] @ S.T

    def NM(self, modes):
        idx = list(modes) + [m + self.n for m in modes]
        V = self.V[np.ix_(idx, idx)]
        k = len(modes)
        xx, pp, xp = V[:k, :k], V[k:, k:], V[:k, k:]
        return (xx + pp + 1j * (xp - xp.T)) / 4 - np.eye(k) / 2, (xx - pp + 1j * (xp + xp.T)) / 4


def run_loop(specs, arrays, T, N):
    L = LoopRef(T + N - 1)
    gates = [s for s in specs if s[0] not in MEASURES]
    for t in range(T):
        for name, ps, pos, flags in gates:
            vals = [float(arrays[x[1]][t]) if isinstance(x, tuple) else x for x in ps]
            L.gate(name, vals, [t + j for j in pos], bool(flags.get("H")))
    return L


class _LogGrab(logging.Handler):
    def __init__(self):
        super().__init__()
        self.msgs = []

    def emit(self, record):
        self.msgs.append(record.getMessage())


class grab_tdm_log:
    """collect (and keep off stderr) what the tdm compiler logs"""

    def __init__(self, name="strawberryfields.compilers.tdm"):
        self.name = name

    def __enter__(self):
        self.lg = logging.getLogger(self.name)
        self.old = (list(self.lg.handlers), self.lg.propagate)
        self.h = _LogGrab()
        self.lg.handlers = [self.h]
        self.lg.propagate = False
        return self.h

    def __exit__(self, *a):
        self.lg.handlers, self.lg.propagate = self.old


# ----------------------------------------------------------------------------------------------
# borealis
# ----------------------------------------------------------------------------------------------
def _wrap(x):
    """into (-pi, pi]"""
    y = np.mod(np.asarray(x, float) + PI, TWO_PI) - PI
    return np.where(y <= -PI, y + TWO_PI, y)


def frame_phases(loop_phases, T):
    """theta_k[j] = phi_k * floor(j / delay_k): light that enters loop k at bin s and leaves it at bin t = s + m delay_k has
    made m round trips and collected m phi_k = theta_k[t] - theta_k[s]"""
    return [np.array([loop_phases[k] * (j // BOREALIS_DELAYS[k]) for j in range(T)], float) for k in range(3)]


@st.composite
def borealis_case(draw):
    T = draw(st.sampled_from([2, 5, 8, 13, 20, 37, 38, 45, 60, 70]))
    lp_kind = draw(st.sampled_from(["small", "small", "generic", "generic", "zero", "beyond_pi"]))
    if lp_kind == "small":
        lp = [draw(gen.fl(-0.3, 0.3)) for _ in range(3)]
    elif lp_kind == "generic":
        lp = [draw(gen.fl(-3.1, 3.1)) for _ in range(3)]
    elif lp_kind == "zero":
        lp = [0.0, draw(gen.fl(-3.1, 3.1)), 0.0]
    else:
        lp = [0.10124, -0.15121, 3.54901]  # the example of the docstring of Borealis.update_params
    user = [draw(st.integers(0, 4)) == 0 for _ in range(3)]
    if draw(st.integers(0, 9)) == 0:
        user = [True, True, True]
    mode = draw(st.sampled_from(["in_range", "via_utils", "any", "in_range", "via_utils", "in_range", "in_range", "any"]))
    if mode == "via_utils":
        # arbitrary target phases, made hardware compatible by the documented route tdm.utils.to_args_dict ->
        # make_phases_compatible -> to_args_list (which assumes that the compiler inserts the loop offsets)
        user = [False, False, False]
    th = frame_phases(lp, T)
    s = [draw(st.sampled_from([0.0, 0.3, 0.5, 1.0, 2.0])) if draw(st.booleans()) else draw(gen.fl(0.0, 1.2)) for _ in range(T)]
    arrays = [s]
    prev = np.zeros(T)
    for k in range(3):
        if mode == "via_utils" and k > 0 and draw(st.booleans()):
            # targets near the edges of the modulator range and in the out-of-range half
            tgt = np.array([draw(st.sampled_from([PI / 2 - 0.01, -PI / 2 + 0.01, PI / 2 + 0.01, -PI / 2 - 0.01, 3.0, -3.0, 0.0])) for _ in range(T)])
        elif user[k] or (mode == "in_range" and k > 0):
            tgt = np.array([draw(gen.fl(-PI / 2 + 0.01, PI / 2 - 0.01)) for _ in range(T)])
        else:
            tgt = np.array([draw(gen.fl(-PI, PI)) for _ in range(T)])
        if user[k]:
            r = tgt  # no compensation by the compiler: the phase is sent to the modulator as it is
        else:
            r = tgt - (th[k] - prev)
            if draw(st.booleans()):
                r = _wrap(r)
            prev = th[k]
        bs_kind = draw(st.sampled_from(["generic", "generic", "open", "closed"]))
        bs = [draw(gen.fl(0.0, PI / 2)) if bs_kind == "generic" else (0.0 if bs_kind == "open" else PI / 2) for _ in range(T)]
        arrays += [[float(x) for x in r], bs]
    mut = draw(st.sampled_from(["none"] * 8 + ["s_out", "bs_out", "wrong_gate", "swap_bs_modes"]))
    if mode == "via_utils":
        mut = "none"
    if mut == "s_out":
        arrays[0][draw(st.integers(0, T - 1))] = 2.5
    if mut == "bs_out":
        arrays[2 * draw(st.integers(1, 3))][draw(st.integers(0, T - 1))] = 2.0
    case = {"T": T, "loop_phases": lp, "user_offsets": user, "arrays": arrays, "mutation": mut}
    if mode == "via_utils":
        case["prep"] = "make_phases_compatible"
    return case


def _borealis_program(case):
    import strawberryfields as sf
    from strawberryfields import ops

    arrays = [list(a) for a in case["arrays"]]
    n = BOREALIS_POS
    prog = sf.TDMProgram(BOREALIS_N)
    with prog.context(*arrays) as (p, q):
        if case["mutation"] == "wrong_gate":
            ops.Rgate(p[0]) | q[n[0]]
        else:
            ops.Sgate(p[0]) | q[n[0]]
        for i in range(3):
            ops.Rgate(p[2 * i + 1]) | q[n[i]]
            if case["mutation"] == "swap_bs_modes" and i == 1:
                ops.BSgate(p[2 * i + 2], np.pi / 2) | (q[n[i]], q[n[i + 1]])
            else:
                ops.BSgate(p[2 * i + 2], np.pi / 2) | (q[n[i + 1]], q[n[i]])
            if case["user_offsets"][i]:
                ops.Rgate(case["loop_phases"][i]) | q[n[i]]
        ops.MeasureFock() | q[0]
    return prog


def check_borealis(ctx, case):
    from strawberryfields.device import Device
    from strawberryfields.program_utils import CircuitError

    T, lp, user = case["T"], case["loop_phases"], case["user_offsets"]
    arrays = case["arrays"]
    sd = borealis_spec()
    layout_ops = parse_layout(sd["layout"])
    labels = ["compiler:borealis", "T:%d" % T, "user_offsets:%d" % sum(user), "mutation:" + case["mutation"]]
    prepped = case.get("prep") == "make_phases_compatible"
    if prepped:
        # documented route to hardware-applicable phases: to_args_dict -> make_phases_compatible -> to_args_list.  Documented effect: "adds a
        # pi offset to the phase-gate arguments that cannot be applied by the Borealis modulators" (loops 1, 2), nothing else changes
        from strawberryfields.tdm import utils as tdm_utils

        labels.append("prep:make_phases_compatible")
        try:
            with grab_tdm_log("strawberryfields.tdm.utils"):
                pdev = Device(spec=sd, cert=borealis_cert(lp))
                gd = tdm_utils.to_args_dict([list(a) for a in arrays], pdev)
                out = tdm_utils.to_args_list(tdm_utils.make_phases_compatible(gd, pdev), pdev)
            out = [[float(x) for x in a] for a in out]
        except Exception as exc:  # pylint: disable=broad-except
            ctx.note(case, True, labels + ["crashed"])
            return ctx.crash(exc, "tdm.utils.make_phases_compatible")
        if len(out) != len(arrays) or any(len(a) != T for a in out):
            ctx.note(case, True, labels)
            return ctx.fail("tdm_utils.argument_list_shape", "to_args_dict -> make_phases_compatible -> to_args_list returned %d lists of lengths %r for 7 "
                            "lists of length %d" % (len(out), [len(a) for a in out][:8], T))
        for k in range(len(arrays)):
            dlt = np.abs(_wrap(np.asarray(out[k]) - np.asarray(arrays[k])))
            is_phase = k in (3, 5)  # the phase-gate arguments of loops 1 and 2
            bad = [j for j in range(T) if not (dlt[j] < 1e-9 or (is_phase and abs(dlt[j] - PI) < 1e-9))] if k % 2 else \
                  [j for j in range(T) if out[k][j] != arrays[k][j]]
            if bad:
                ctx.note(case, True, labels)
                return ctx.fail("tdm_utils.make_phases_compatible.changes_other_than_pi_shifts", "argument list %d, time bin %d: %r became %r"
                                % (k, bad[0], arrays[k][bad[0]], out[k][bad[0]]))
        shifted = sum(int(abs(abs(x) - PI) < 1e-9) for k in (3, 5) for x in _wrap(np.asarray(out[k]) - np.asarray(arrays[k])))
        labels.append("prep_shifted_some" if shifted else "prep_shifted_none")
        arrays = out
    # harness' own prediction: which compensated phases leave the modulator range (pi shift documented for loops 1, 2)
    th = frame_phases(lp, T)
    prev = np.zeros(T)
    margin = np.inf
    for k in range(3):
        if user[k]:
            continue
        c = _wrap(np.asarray(arrays[1 + 2 * k]) + th[k] - prev)
        if k > 0:
            margin = min(margin, float(np.min(np.minimum(c - BOREALIS_PHI_RANGE[0], BOREALIS_PHI_RANGE[1] - c))))
        prev = th[k]
    exact = margin > 1e-6
    labels.append("in_range_by_construction" if exact else ("boundary" if margin > -1e-6 else "needs_pi_shift"))
    if prepped and margin < -1e-9:
        ctx.note(case, True, labels)
        return ctx.fail("tdm_utils.make_phases_compatible.phase_left_out_of_range", "after make_phases_compatible the compensated phases of loops 1, 2 (own "
                        "derivation theta_k[j] = phi_k floor(j / delay_k)) still leave the modulator range by %.3g" % -margin)
    partial = any((not user[k]) and user[k + 1] and lp[k] != 0 for k in range(2))
    reset_compilers()
    try:
        with grab_tdm_log() as log:
            prog = _borealis_program(dict(case, arrays=arrays))
            src = tdm_specs(prog.circuit)
            comp = prog.compile(device=Device(spec=sd, cert=borealis_cert(lp)))
    except (CircuitError, ValueError) as exc:
        ctx.note(case, False, labels + ["rejected", "rejected:" + type(exc).__name__])
        return None
    except Exception as exc:  # pylint: disable=broad-except
        ctx.note(case, True, labels + ["crashed"])
        return ctx.crash(exc, "compile.borealis")
    finally:
        reset_compilers()
    cs = tdm_specs(comp.circuit)
    carr = [[float(x) for x in np.ravel(np.asarray(a, dtype=float))] for a in comp.tdm_params]
    changed = any(len(a) != len(b) or np.max(np.abs(np.asarray(a) - np.asarray(b))) > 1e-12 for a, b in zip(arrays, carr))
    warned = any("offset by pi" in m for m in log.msgs)
    labels += ["accepted", "resynthesised" if (changed or len(cs) != len(src)) else "unchanged"] + (["pi_shift_warning"] if warned else [])
    ctx.note(case, nontrivial=changed and any(x != 0 for x in arrays[0]), labels=labels)
    # (1) conformance
    problems = conformance(layout_ops, sd["gate_parameters"], cs, carr)
    hard = [p for p in problems if p[0] != "atol"]
    if hard:
        kind, detail = hard[0]
        return ctx.fail("borealis.conformance.%s" % kind, detail)
    offs = [s[1][0] for s in cs if s[0] == "Rgate" and not isinstance(s[1][0], tuple)]
    if len(offs) != 3 or any(abs(a - b) > 1e-12 for a, b in zip(offs, lp)):
        return ctx.fail("borealis.loop_offset_value", "loop-offset gates carry %r, the certificate says %r" % (offs, lp))
    if len(carr) != len(arrays) or any(len(a) != T for a in carr):
        return ctx.fail("borealis.array_shape", "parameter arrays changed shape")
    # (3) same statistics on the measured pulses (only without pi shifts)
    if not exact:
        return None
    if warned:
        return ctx.fail("borealis.pi_shift_although_in_range", "every compensated phase of loops 1, 2 lies inside the modulator range by %.3g "
                        "(own derivation), but the compiler shifted phases by pi" % margin)
    a = run_loop(src, arrays, T, BOREALIS_N)
    b = run_loop(cs, carr, T, BOREALIS_N)
    Na, Ma = a.NM(range(T))
    Nb, Mb = b.NM(range(T))
    d = max(float(np.max(np.abs(np.abs(Na) - np.abs(Nb)))), float(np.max(np.abs(np.abs(Ma) - np.abs(Mb)))))
    if d > 1e-9:
        if partial:
            k = next(k for k in range(2) if (not user[k]) and user[k + 1] and lp[k] != 0)
            return ctx.fail("borealis.frame_of_compensated_loop_not_undone_before_user_offset_loop", "loop %d is compensated by the compiler, loop %d carries a "
                            "user-inserted offset: the frame phases left by loop %d are subtracted one loop too late; |N|,|M| on the measured pulses differ by %.3g" % (k, k + 1, k, d))
        return ctx.fail("borealis.different_statistics", "|N_ij|, |M_ij| on the %d measured pulses differ by %.3g between the source on ideal loops and the "
                        "compiled program with loop offsets %r" % (T, d, lp))
    return None


# ----------------------------------------------------------------------------------------------
# generic TDM / TD2 compilers: layout + ranges on small generated single-spatial-mode devices
# ----------------------------------------------------------------------------------------------
TDM_TEMPLATES = {
    # name: (concurrent modes, [(gate, n_args, modes)])  - the measurement on mode 0 is appended
    "one_loop": (2, [("Sgate", 2, [1]), ("BSgate", 2, [1, 0]), ("Rgate", 1, [1])]),
    "one_loop_b": (2, [("Sgate", 2, [1]), ("Rgate", 1, [0]), ("BSgate", 2, [0, 1])]),
    "two_loops": (3, [("Sgate", 2, [2]), ("BSgate", 2, [1, 2]), ("Rgate", 1, [2]), ("BSgate", 2, [0, 1]), ("Rgate", 1, [1])]),
}
TDM_RANGES = [[0, [0, TWO_PI]], [[-1.0, 1.0]], [[0, PI / 2]], [0.5], [0, 0.5, [1.0, 2.0]]]
TDM_CONSTS = [0.0, 0.5643, 0.3, 1.5707963267948966]


def tdm_layout_text(lay):
    """lay = {"target", "ops": [[gate, [arg..], modes]], arg = ["p", name] | ["c", value]}"""
    names = []
    for _, args, _ in lay["ops"]:
        for a in args:
            if a[0] == "p" and a[1] not in names:
                names.append(a[1])
    L = ["name template_tdm", "version 1.0", "target %s (shots=1)" % lay["target"], "type tdm (temporal_modes=4, copies=1)", ""]
    for k, nm in enumerate(names):
        L += ["float array p%d[1, 4] =" % k, "    {%s}" % nm]
    L.append("")
    for gate, args, modes in lay["ops"]:
        at = ", ".join("{%s}" % a[1] if a[0] == "p" else repr(float(a[1])) for a in args)
        L.append("%s(%s) | %s" % (gate, at, modes[0] if len(modes) == 1 else "[%s]" % ", ".join(str(m) for m in modes)))
    return "\n".join(L)


def _in_range_value(draw, items):
    it = draw(st.sampled_from(items))
    if isinstance(it, (list, tuple)):
        return draw(st.one_of(st.sampled_from([float(it[0]), float(it[1])]), gen.fl(float(it[0]), float(it[1]))))
    return float(it)


@st.composite
def tdm_case(draw):
    compiler = draw(st.sampled_from(["TDM", "TDM", "TD2"]))
    tname = draw(st.sampled_from(sorted(TDM_TEMPLATES)))
    N, gates = TDM_TEMPLATES[tname]
    meas = "MeasureHomodyne" if compiler == "TD2" or draw(st.booleans()) else "MeasureFock"
    ops_, gp = [], {}
    k = 0
    for gate, nargs, modes in list(gates) + [(meas, 1 if meas == "MeasureHomodyne" else 0, [0])]:
        args = []
        for j in range(nargs):
            second = j == 1  # phases of Sgate / BSgate are mostly hard-coded
            if draw(st.integers(0, 3)) == 0 if not second else draw(st.integers(0, 3)) > 0:
                args.append(["c", draw(st.sampled_from(TDM_CONSTS))])
            else:
                nm = "v%d" % k
                k += 1
                gp[nm] = draw(st.sampled_from(TDM_RANGES))
                args.append(["p", nm])
        ops_.append([gate, args, list(modes)])
    tmax = draw(st.sampled_from([4, 6, 100]))
    lay = {"target": compiler, "ops": ops_, "N": N, "tmax": tmax, "gp": gp}
    # the program
    T = draw(st.integers(1, 4))
    mut = draw(st.sampled_from(["none"] * 8 + ["arr_out", "arr_out", "const_differs", "const_by_array", "const_by_array", "array_by_const", "dagger",
                                              "swap_order", "bs_modes", "wrong_gate", "too_long", "concurrent", "near_range", "barely_out", "barely_out", "arr_gap", "arr_gap"]))
    if mut == "arr_gap":
        T = max(T, 3)  # room for an allowed minimum, an allowed maximum and an entry in a gap of the allowed set between them
    if mut == "too_long":
        T = tmax + 1
    arrays, pops = [], []
    slots = [(i, j) for i, (_, args, _) in enumerate(ops_) for j in range(len(args))]
    pick = draw(st.sampled_from(slots)) if slots else None
    for i, (gate, args, modes) in enumerate(ops_):
        ps = []
        for j, a in enumerate(args):
            here = pick == (i, j)
            if a[0] == "c":
                if here and mut == "const_differs":
                    ps.append(float(a[1]) + 0.25)
                elif here and mut == "const_by_array":
                    arrays.append([float(a[1]) + 0.25 * (t + 1) for t in range(T)])
                    ps.append(["arr", len(arrays) - 1])
                else:
                    ps.append(float(a[1]))
            else:
                items = gp[a[1]]
                if here and mut == "array_by_const":
                    ps.append(_in_range_value(draw, items))
                    continue
                vals = [_in_range_value(draw, items) for _ in range(T)]
                if here and mut in ("arr_out", "near_range", "barely_out"):
                    hi = max(float(it[-1]) if isinstance(it, (list, tuple)) else float(it) for it in items)
                    # barely_out: a few times the documented absolute tolerance (1e-5) of the range test
                    vals[draw(st.integers(0, T - 1))] = hi + (0.5 if mut == "arr_out" else (3e-6 if mut == "near_range" else draw(st.sampled_from([4e-5, 1e-4]))))
                if here and mut == "arr_gap":
                    # allowed sets are unions of single values and intervals: an entry in a gap BETWEEN allowed values, while the smallest
                    # and the largest entry of the array are allowed
                    pts = sorted((float(it[0]), float(it[1])) if isinstance(it, (list, tuple)) else (float(it), float(it)) for it in items)
                    gaps = [(a[1], b[0]) for a, b in zip(pts, pts[1:]) if b[0] - a[1] > 1e-3]
                    if gaps:
                        lo_, hi_ = gaps[draw(st.integers(0, len(gaps) - 1))]
                        vals = [lo_, hi_] + [lo_ + (hi_ - lo_) * draw(st.sampled_from([0.5, 0.25, 0.9]))] + vals[3:]
                        vals = list(draw(st.permutations(vals)))
                arrays.append(vals)
                ps.append(["arr", len(arrays) - 1])
        flags = {"H": True} if mut == "dagger" and pick is not None and pick[0] == i and gate in ("Sgate", "BSgate", "Rgate") else {}
        m = list(modes)
        if mut == "bs_modes" and gate == "BSgate":
            m = m[::-1]
        pops.append(["Dgate" if mut == "wrong_gate" and gate == "Sgate" else gate, ps, m, flags])
    if not arrays:
        arrays.append([0.0] * T)
    if mut == "swap_order":
        i = draw(st.integers(0, len(pops) - 3))
        pops[i], pops[i + 1] = pops[i + 1], pops[i]
    # statefulness of the class-level layout / graph cache (Compiler.init_circuit / .graph): "twice" = the same program is compiled a
    # second time for the same device without a reset of the compiler class in between
    session = draw(st.sampled_from(["fresh", "fresh", "twice"]))
    return {"compiler": compiler, "layout": lay, "T": T, "n_prog": N + 1 if mut == "concurrent" else N, "arrays": arrays, "ops": pops, "mutation": mut,
            "session": session}


def _tdm_program(case):
    import strawberryfields as sf
    from strawberryfields import ops

    prog = sf.TDMProgram(case["n_prog"])
    with prog.context(*[list(a) for a in case["arrays"]]) as (p, q):
        for gate, ps, modes, flags in case["ops"]:
            args = [p[x[1]] if isinstance(x, list) else x for x in ps]
            op = getattr(ops, gate)(*args)
            if flags.get("H"):
                op = op.H
            regs = tuple(q[m] for m in modes)
            op | (regs if len(regs) > 1 else regs[0])
    return prog


def check_tdm(ctx, case):
    from strawberryfields.device import Device
    from strawberryfields.program_utils import CircuitError

    lay, compiler, T = case["layout"], case["compiler"], case["T"]
    session = case.get("session", "fresh")
    sd = {"target": lay["target"], "layout": tdm_layout_text(lay), "modes": {"concurrent": lay["N"], "spatial": 1, "temporal_max": lay["tmax"]},
          "compiler": [compiler], "gate_parameters": dict(lay["gp"])}
    layout_ops = parse_layout(sd["layout"])
    labels = ["compiler:" + compiler, "mutation:" + case["mutation"], "template_modes:%d" % lay["N"], "session:" + session]
    src_specs = [[g, [tuple(x) if isinstance(x, list) else float(x) for x in ps], list(m), dict(f)] for g, ps, m, f in case["ops"]]
    src_ok = (not conformance(layout_ops, sd["gate_parameters"], src_specs, case["arrays"]) and T <= lay["tmax"] and case["n_prog"] == lay["N"]
              and len({tuple(a) for a in case["arrays"]}) == len(case["arrays"]))
    if src_ok:
        labels.append("source_in_layout_form")
    reset_compilers()
    first = None
    try:
        with grab_tdm_log():
            if session == "twice":
                try:
                    c0 = _tdm_program(case).compile(device=Device(spec=sd), compiler=compiler)
                    first = ("ok", tdm_specs(c0.circuit), [[float(x) for x in np.ravel(np.asarray(a, dtype=float))] for a in c0.tdm_params])
                except (CircuitError, ValueError) as exc:
                    first = ("rejected", type(exc).__name__, None)
            prog = _tdm_program(case)
            comp = prog.compile(device=Device(spec=sd), compiler=compiler)
    except (CircuitError, ValueError) as exc:
        ctx.note(case, False, labels + ["rejected", "rejected:" + type(exc).__name__])
        if first is not None and first[0] == "ok":
            return ctx.fail("tdm.second_compile_differs.%s" % compiler, "the first compilation of the program succeeded, the second one (same device, no "
                            "reset of the compiler in between) raised %s: %s" % (type(exc).__name__, str(exc)[:200]))
        if src_ok:
            return ctx.fail("rejects_layout_form.%s" % compiler, "the program is exactly the device layout with every parameter inside its range, "
                            "but compilation raised %s: %s" % (type(exc).__name__, str(exc)[:200]))
        return None
    except Exception as exc:  # pylint: disable=broad-except
        ctx.note(case, True, labels + ["crashed"])
        return ctx.crash(exc, "compile." + compiler)
    finally:
        reset_compilers()
    cs = tdm_specs(comp.circuit)
    carr = [[float(x) for x in np.ravel(np.asarray(a, dtype=float))] for a in comp.tdm_params]
    ctx.note(case, nontrivial=True, labels=labels + ["accepted"])
    if first is not None and (first[0] != "ok" or first[1] != cs or first[2] != carr):
        return ctx.fail("tdm.second_compile_differs.%s" % compiler, "two compilations of the same program for the same device (no reset of the compiler "
                        "in between) disagree: first %s, second accepted%s" % (first[0], "" if first[0] != "ok" else " with another circuit / arrays"))
    if T > lay["tmax"] or case["n_prog"] != lay["N"]:
        return ctx.fail("tdm.mode_count_not_checked", "%d time bins / %d concurrent modes accepted by a device with temporal_max %d / %d concurrent modes"
                        % (T, case["n_prog"], lay["tmax"], lay["N"]))
    problems = [p for p in conformance(layout_ops, sd["gate_parameters"], cs, carr) if p[0] != "atol"]
    if problems:
        kind, detail = problems[0]
        if not sd["gate_parameters"] and kind in ("sequence", "inconsistent", "dagger"):
            # open finding X2: without gate_parameters Program.compile never calls validate_gate_parameters
            return ctx.fail("conformance.no_layout_check_without_gate_parameters", "device specification without gate_parameters: %s returned a "
                            "circuit that does not match the device layout (%s)" % (compiler, detail))
        if kind == "dagger":
            return ctx.fail("conformance.daggered_gate_passes_validation", "%s: %s" % (compiler, detail))
        if kind == "constant":
            symbolic = any(isinstance(x, tuple) for s in cs for x in s[1]) and case["mutation"] == "const_by_array"
            if symbolic:
                return ctx.fail("conformance.hardcoded_layout_argument_not_checked.tdm_array_parameter", "%s: %s" % (compiler, detail))
        return ctx.fail("conformance.%s.%s" % (kind, compiler), detail)
    if cs != src_specs or carr != [[float(x) for x in a] for a in case["arrays"]]:
        return ctx.fail("tdm.circuit_changed.%s" % compiler, "the generic TDM compilers only validate, but the compiled circuit / arrays differ from the source")
    return None


# ----------------------------------------------------------------------------------------------
# tdm.utils.vacuum_padding: "all loops are emptied from optical pulses at the end of the program"
# ----------------------------------------------------------------------------------------------
@st.composite
def pad_case(draw):
    m = draw(st.sampled_from([2, 3, 5, 8, 12, 20, 30, 35, 36, 37, 45]))
    loops = []
    for k in range(3):
        # the two documented ways to use a loop (tdm.utils.borealis_gbs): "open" = the first `delay` beamsplitter arguments are 0 so that the
        # loop fills up (ALL of them when the program has no more modes than the delay), then generic angles; "bypass" = pi/2 throughout
        kind = draw(st.sampled_from(["open", "open", "bypass"]))
        if kind == "open":
            z = min(BOREALIS_DELAYS[k], m)
            bs = [0.0] * z + [draw(gen.fl(0.2, 1.3)) for _ in range(m - z)]
        else:
            bs = [PI / 2] * m
        loops.append({"kind": kind, "bs": bs, "r": [draw(gen.fl(-3.0, 3.0)) for _ in range(m)]})
    return {"m": m, "s": [draw(st.sampled_from([0.3, 0.5, 0.8])) for _ in range(m)], "loops": loops}


def check_pad(ctx, case):
    """the padded arguments, played on the three delay loops as an explicit loop (every pulse a fresh mode), must deliver every photon
    to the detector before the program ends: sum of <n> over the measured pulses == sum sinh^2(s) (the loops are lossless)"""
    from strawberryfields.tdm import utils

    m = case["m"]
    ga = {"Sgate": list(case["s"]), "loops": {k: {"Rgate": list(lp["r"]), "BSgate": list(lp["bs"])} for k, lp in enumerate(case["loops"])}}
    labels = ["vacuum_padding", "modes:%d" % m] + ["loop%d:%s" % (k, lp["kind"]) for k, lp in enumerate(case["loops"])]
    if any(lp["kind"] == "open" and m < BOREALIS_DELAYS[k] for k, lp in enumerate(case["loops"])):
        labels.append("program_shorter_than_open_loop")
    ctx.note(case, nontrivial=True, labels=labels)
    try:
        out = utils.vacuum_padding(ga, delays=list(BOREALIS_DELAYS))
    except Exception as exc:  # pylint: disable=broad-except
        return ctx.crash(exc, "vacuum_padding")
    arrays = [list(out["Sgate"])]
    for k in range(3):
        arrays += [list(out["loops"][k]["Rgate"]), list(out["loops"][k]["BSgate"])]
    T = len(arrays[0])
    if any(len(a) != T for a in arrays):
        return ctx.fail("vacuum_padding.lengths_differ", "padded lists have lengths %s" % [len(a) for a in arrays])
    if [float(x) for x in arrays[0] if x != 0] != [float(x) for x in case["s"]]:
        return ctx.fail("vacuum_padding.squeezing_changed", "the non-zero squeezing values are not the ones passed in")
    n = BOREALIS_POS
    specs = [["Sgate", [("arr", 0), 0.0], [n[0]], {}]]
    for i in range(3):
        specs.append(["Rgate", [("arr", 2 * i + 1)], [n[i]], {}])
        specs.append(["BSgate", [("arr", 2 * i + 2), PI / 2], [n[i + 1], n[i]], {}])
    L = run_loop(specs, arrays, T, BOREALIS_N)
    Nm, _ = L.NM(list(range(T)))  # pulse t is measured at time bin t (register position 0)
    got = float(np.real(np.trace(Nm)))
    want = float(sum(np.sinh(x) ** 2 for x in case["s"]))
    if abs(got - want) > 1e-8 * (1 + want):
        return ctx.fail("vacuum_padding.light_left_in_the_loops", "%d modes, loops %s: the measured pulses carry %.6f of %.6f photons when the padded program ends "
                        "(padded length %d)" % (m, [lp["kind"] for lp in case["loops"]], got, want, T))
    return None


SUBS = [
    Sub("x_compile", check=check_x, strategy=lambda ctx: x_case(), examples={"quick": 900, "thorough": 6000},
        shards={"quick": 4, "thorough": 14}, budget={"quick": 100, "thorough": 1500},
        rule="(device spec, X compiler, source program): X8 verbatim + harness-built 2/4/6/8-mode layouts, generated ranges; GBS-form, "
             "layout-form (with one mutation) and BipartiteGraphEmbed sources"),
    Sub("borealis", check=check_borealis, strategy=lambda ctx: borealis_case(), examples={"quick": 70, "thorough": 500},
        shards={"quick": 1, "thorough": 1}, budget={"quick": 100, "thorough": 1500},
        rule="3-loop programs of 2..70 time bins, generated loop-phase certificates, any subset of user-inserted offsets"),
    Sub("tdm_generic", check=check_tdm, strategy=lambda ctx: tdm_case(), examples={"quick": 500, "thorough": 5000},
        shards={"quick": 1, "thorough": 1}, budget={"quick": 100, "thorough": 1500},
        rule="generated one/two-loop layouts (constants or ranged placeholders per argument) for the TDM / TD2 compilers, programs with one mutation"),
    Sub("vacuum_padding", check=check_pad, strategy=lambda ctx: pad_case(), examples={"quick": 60, "thorough": 600},
        shards={"quick": 1, "thorough": 4}, budget={"quick": 100, "thorough": 900},
        rule="tdm.utils.vacuum_padding for 2..45 computational modes on the three Borealis loops (each loop used as tdm.utils.borealis_gbs uses it: opened for its "
             "delay and then generic, or bypassed): explicit-loop reference, every photon must reach the detector before the padded program ends"),
]

MANIFEST = {
    "technique": "Hypothesis differential testing: compiled circuit vs device specification (own layout / range oracle) and vs the source program "
                 "(independent phase-space reference, explicit-loop reference for time-domain devices)",
    "text": ("For generated device specifications (the verbatim X8 layout, harness-built X-style layouts for 2-8 modes with generated squeezing "
             "sets and phase ranges, the Borealis layout with generated loop-phase certificates, small generated TDM layouts) and generated "
             "source programs, compilation either raises CircuitError/ValueError or returns a circuit that (1) has the layout's per-mode gate "
             "sequences, no daggered gate, the hard-coded arguments of the layout and every placeholder value inside its range, and (2) "
             "prepares the same Gaussian state as the source (Xstrict/Xunitary), or a state with the same local-phase invariants and "
             "low-photon pattern probabilities (Xcov), or the same |N_ij|, |M_ij| on the measured pulses (Borealis without pi shifts)."),
    "note": "trusted: blackbird's layout parser, numpy, refsim (self-tested), thewalrus only inside the self-test",
}
