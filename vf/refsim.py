"""refsim - independent Gaussian phase-space reference simulator (the oracle of most differentials).

Written from the *documented* Heisenberg-picture maps in the docstrings of strawberryfields.ops
(e.g. ``B^dag a1 B = a1 cos(t) - a2 exp(-i phi) sin(t)``), never from a backend.  Every Gaussian
unitary is a Bogoliubov map  a -> A a + B a^dag + c  which is converted to a real symplectic matrix and a
displacement in (x_0..x_{n-1}, p_0..p_{n-1}) order with an explicit hbar
(x = sqrt(hbar/2)(a + a^dag), p = -i sqrt(hbar/2)(a - a^dag)).

Besides the state (mu, V) the simulator tracks the affine channel (X, Y, d) applied so far,
mu' = X mu + d, V' = X V X^T + Y, so that two circuits can be compared *as maps* (for all input states)
as long as no conditioning (post-selected measurement) happened.

This module does not import strawberryfields, thewalrus.symplectic or anything from /repo.
"""
from __future__ import annotations

import numpy as np


class RefError(Exception):
    """operation unknown to the reference simulator"""


def bogoliubov_to_symplectic(A, B):
    """a -> A a + B a^dag  ==>  real matrix S on (x.., p..) (independent of hbar)."""
    A = np.asarray(A, complex)
    B = np.asarray(B, complex)
    P = A + B.conj()
    Q = B + A.conj()  # x' ~ P a + Q a^dag
    Sxx = ((P + Q) / 2).real
    Sxp = (1j * (P - Q) / 2).real
    P2 = A - B.conj()
    Q2 = B - A.conj()  # p' ~ -i (P2 a + Q2 a^dag)
    Spx = (-1j * (P2 + Q2) / 2).real
    Spp = ((P2 - Q2) / 2).real
    return np.block([[Sxx, Sxp], [Spx, Spp]])


def mz_unitary(phi_in, phi_ex):
    v = np.exp(1j * phi_in)
    u = np.exp(1j * phi_ex)
    return 0.5 * np.array([[u * (v - 1), 1j * (1 + v)], [1j * u * (1 + v), 1 - v]])


def bs_unitary(theta, phi):
    c, s = np.cos(theta), np.sin(theta)
    return np.array([[c, -np.exp(-1j * phi) * s], [np.exp(1j * phi) * s, c]])


def omega(n):
    return np.block([[np.zeros((n, n)), np.eye(n)], [-np.eye(n), np.zeros((n, n))]])


def squeezed_cov(r, phi, hbar):
    """hbar/2 R(phi/2) diag(e^-2r, e^2r) R(phi/2)^T  (docstring of ops.Squeezed)"""
    c, s = np.cos(phi / 2), np.sin(phi / 2)
    R = np.array([[c, -s], [s, c]])
    return hbar / 2 * R @ np.diag([np.exp(-2 * r), np.exp(2 * r)]) @ R.T


class Ref:
    def __init__(self, n, hbar=2.0):
        self.n = n
        self.h = float(hbar)
        self.mu = np.zeros(2 * n)
        self.V = np.eye(2 * n) * self.h / 2
        self.X = np.eye(2 * n)
        self.Y = np.zeros((2 * n, 2 * n))
        self.d = np.zeros(2 * n)
        self.linear = True  # False once a conditioning happened: (X, Y, d) no longer describe the circuit

    # ------------------------------------------------------------------ primitives
    def _idx(self, modes):
        modes = [int(m) for m in modes]
        if len(set(modes)) != len(modes) or any(m < 0 or m >= self.n for m in modes):
            raise RefError("bad modes %r" % (modes,))
        return modes + [m + self.n for m in modes]

    def affine(self, modes, S, dvec=None, Ynoise=None):
        """mu -> F mu + d, V -> F V F^T + Y with F = S embedded on `modes` (S in local xxpp order)."""
        idx = self._idx(modes)
        F = np.eye(2 * self.n)
        F[np.ix_(idx, idx)] = S
        dd = np.zeros(2 * self.n)
        if dvec is not None:
            dd[idx] = dvec
        YY = np.zeros((2 * self.n, 2 * self.n))
        if Ynoise is not None:
            YY[np.ix_(idx, idx)] = Ynoise
        self.mu = F @ self.mu + dd
        self.V = F @ self.V @ F.T + YY
        self.X = F @ self.X
        self.Y = F @ self.Y @ F.T + YY
        self.d = F @ self.d + dd

    def bog(self, modes, A, B=None, c=None):
        k = len(modes)
        A = np.asarray(A, complex).reshape(k, k)
        B = np.zeros((k, k), complex) if B is None else np.asarray(B, complex).reshape(k, k)
        S = bogoliubov_to_symplectic(A, B)
        dvec = None
        if c is not None:
            c = np.asarray(c, complex).reshape(k)
            dvec = np.sqrt(2 * self.h) * np.concatenate([c.real, c.imag])
        self.affine(modes, S, dvec)

    def prepare(self, modes, mean, cov):
        """Replace modes by an independent Gaussian state (local xxpp order, current hbar units)."""
        idx = self._idx(modes)
        k = len(modes)
        self.affine(modes, np.zeros((2 * k, 2 * k)), np.asarray(mean, float), np.asarray(cov, float))
        # exact zeros of correlations (affine already does that numerically)
        return idx

    # ------------------------------------------------------------------ gates
    def Dgate(self, r, phi, m):
        self.bog([m], [[1]], None, [r * np.exp(1j * phi)])

    def Xgate(self, x, m):
        self.affine([m], np.eye(2), [x, 0.0])

    def Zgate(self, p, m):
        self.affine([m], np.eye(2), [0.0, p])

    def Rgate(self, theta, m):
        self.bog([m], [[np.exp(1j * theta)]])

    def Fourier(self, m, sign=1):
        self.Rgate(sign * np.pi / 2, m)

    def Sgate(self, r, phi, m):
        self.bog([m], [[np.cosh(r)]], [[-np.exp(1j * phi) * np.sinh(r)]])

    def Pgate(self, s, m):
        S = np.eye(2)
        S[1, 0] = s
        self.affine([m], S)

    def BSgate(self, theta, phi, m1, m2):
        self.bog([m1, m2], bs_unitary(theta, phi))

    def MZgate(self, phi_in, phi_ex, m1, m2, dagger=False):
        U = mz_unitary(phi_in, phi_ex)
        self.bog([m1, m2], U.conj().T if dagger else U)

    def S2gate(self, r, phi, m1, m2):
        A = np.eye(2) * np.cosh(r)
        B = np.array([[0, 1], [1, 0]]) * np.exp(1j * phi) * np.sinh(r)
        self.bog([m1, m2], A, B)

    def CXgate(self, s, m1, m2):
        # x1->x1, p1->p1 - s p2, x2->x2 + s x1, p2->p2   local order (x1,x2,p1,p2)
        S = np.eye(4)
        S[1, 0] = s
        S[2, 3] = -s
        self.affine([m1, m2], S)

    def CZgate(self, s, m1, m2):
        # p1 -> p1 + s x2, p2 -> p2 + s x1
        S = np.eye(4)
        S[2, 1] = s
        S[3, 0] = s
        self.affine([m1, m2], S)

    def Interferometer(self, U, modes, dagger=False):
        U = np.asarray(U, complex)
        self.bog(list(modes), U.conj().T if dagger else U)

    def GaussianTransform(self, S, modes, dvec=None):
        self.affine(list(modes), np.asarray(S, float), dvec)

    # ------------------------------------------------------------------ channels
    def LossChannel(self, T, m, nbar=0.0):
        self.affine([m], np.sqrt(T) * np.eye(2), None, (1 - T) * (2 * nbar + 1) * self.h / 2 * np.eye(2))

    def PassiveChannel(self, T, modes):
        """a^dag_i -> sum_j T_ij a^dag_j  (docstring), i.e. a -> conj(T) a ... see note in apply()"""
        T = np.asarray(T, complex)
        k = len(modes)
        S = bogoliubov_to_symplectic(T, np.zeros((k, k)))
        Yn = self.h / 2 * (np.eye(2 * k) - S @ S.T)
        self.affine(list(modes), S, None, Yn)

    def MSgate_avg(self, r, phi, r_anc, eta_anc, m):
        """average map of measurement-based squeezing (Gaussian CPTP map).

        Circuit: ancilla squeezed by r_anc (in p: S(-r_anc)? see docs) - not documented precisely enough in
        ops.py to be used as an oracle; only used where both sides are the same implementation."""
        raise RefError("MSgate has no documented map")

    # ------------------------------------------------------------------ preparations
    def Vacuum(self, m):
        self.prepare([m], [0, 0], np.eye(2) * self.h / 2)

    def Coherent(self, r, phi, m):
        a = r * np.exp(1j * phi)
        self.prepare([m], np.sqrt(2 * self.h) * np.array([a.real, a.imag]), np.eye(2) * self.h / 2)

    def Squeezed(self, r, phi, m):
        self.prepare([m], [0, 0], squeezed_cov(r, phi, self.h))

    def DisplacedSqueezed(self, r_d, phi_d, r_s, phi_s, m):
        a = r_d * np.exp(1j * phi_d)
        self.prepare([m], np.sqrt(2 * self.h) * np.array([a.real, a.imag]), squeezed_cov(r_s, phi_s, self.h))

    def Thermal(self, nbar, m):
        self.prepare([m], [0, 0], (2 * nbar + 1) * self.h / 2 * np.eye(2))

    def Gaussian(self, V, r, modes):
        k = len(modes)
        r = np.zeros(2 * k) if r is None else np.asarray(r, float)
        self.prepare(list(modes), r, np.asarray(V, float))

    # ------------------------------------------------------------------ conditioning
    def _split(self, m):
        B = [m, m + self.n]
        A = [i for i in range(2 * self.n) if i not in B]
        return A, B

    def homodyne_dist(self, phi, m):
        """(mean, variance) of x_phi = cos(phi) x + sin(phi) p of mode m (current hbar units)."""
        u = np.array([np.cos(phi), np.sin(phi)])
        B = [m, m + self.n]
        return float(u @ self.mu[B]), float(u @ self.V[np.ix_(B, B)] @ u)

    def condition_homodyne(self, phi, value, m, noise=0.0):
        """Project mode m on the x_phi eigenstate with outcome `value`; mode m -> vacuum."""
        A, B = self._split(m)
        u = np.array([np.cos(phi), np.sin(phi)])
        VB = self.V[np.ix_(B, B)]
        C = self.V[np.ix_(A, B)]
        var = float(u @ VB @ u) + noise
        k = C @ u / var
        muA = self.mu[A] + k * (value - u @ self.mu[B])
        VA = self.V[np.ix_(A, A)] - np.outer(k, C @ u)
        self._after_measure(A, B, muA, VA)

    def heterodyne_dist(self, m):
        """mean (x, p) and covariance of the heterodyne outcome sqrt(2 hbar)(Re a, Im a) of mode m"""
        B = [m, m + self.n]
        return self.mu[B].copy(), self.V[np.ix_(B, B)] + self.h / 2 * np.eye(2)

    def condition_heterodyne(self, alpha, m):
        A, B = self._split(m)
        VB = self.V[np.ix_(B, B)] + self.h / 2 * np.eye(2)
        C = self.V[np.ix_(A, B)]
        K = C @ np.linalg.inv(VB)
        val = np.sqrt(2 * self.h) * np.array([np.real(alpha), np.imag(alpha)])
        muA = self.mu[A] + K @ (val - self.mu[B])
        VA = self.V[np.ix_(A, A)] - K @ C.T
        self._after_measure(A, B, muA, VA)

    def _after_measure(self, A, B, muA, VA):
        n2 = 2 * self.n
        mu = np.zeros(n2)
        V = np.zeros((n2, n2))
        mu[A] = muA
        V[np.ix_(A, A)] = (VA + VA.T) / 2
        V[np.ix_(B, B)] = self.h / 2 * np.eye(2)
        self.mu, self.V = mu, V
        self.linear = False

    def trace_out_to_vacuum(self, m):
        self.Vacuum(m)

    # ------------------------------------------------------------------ read-out
    def reduced(self, modes):
        idx = self._idx(modes)
        return self.mu[idx].copy(), self.V[np.ix_(idx, idx)].copy()

    def NM(self, modes=None):
        """N_ij = <a_i^dag a_j> - <a_i^dag><a_j> (centred), M_ij = <a_i a_j> centred, plus alpha."""
        modes = list(range(self.n)) if modes is None else list(modes)
        mu, V = self.reduced(modes)
        k = len(modes)
        V = V / (self.h / 2)
        xx, pp, xp = V[:k, :k], V[k:, k:], V[:k, k:]
        N = (xx + pp + 1j * (xp - xp.T)) / 4 - np.eye(k) / 2
        M = (xx - pp + 1j * (xp + xp.T)) / 4
        alpha = (mu[:k] + 1j * mu[k:]) / np.sqrt(2 * self.h)
        return N, M, alpha

    def mean_photon(self, m):
        N, _, al = self.NM([m])
        return float(N[0, 0].real + abs(al[0]) ** 2)

    def total_photon(self):
        return sum(self.mean_photon(m) for m in range(self.n))

    def purity(self, modes=None):
        modes = list(range(self.n)) if modes is None else list(modes)
        _, V = self.reduced(modes)
        return float((self.h / 2) ** len(modes) / np.sqrt(np.linalg.det(V)))

    def uncertainty_min_eig(self):
        return float(np.min(np.linalg.eigvalsh(self.V + 1j * self.h / 2 * omega(self.n))))

    # ------------------------------------------------------------------ dispatcher for JSON op specs
    def apply(self, name, params, modes, dagger=False, select=None):
        """Apply operation `name` (class name in strawberryfields.ops) with numeric params.

        For gates, ``dagger`` means the inverse map.  Gates obeying the documented first-parameter
        convention are inverted by negating p[0]; the others by inverting their documented matrix.
        """
        p = list(params)
        m = list(modes)
        sg = -1.0 if dagger else 1.0
        if name == "Dgate":
            self.Dgate(sg * p[0], p[1] if len(p) > 1 else 0.0, m[0])
        elif name == "Xgate":
            self.Xgate(sg * p[0], m[0])
        elif name == "Zgate":
            self.Zgate(sg * p[0], m[0])
        elif name == "Rgate":
            self.Rgate(sg * p[0], m[0])
        elif name in ("Fouriergate", "Fourier"):
            self.Fourier(m[0], sg)
        elif name == "Sgate":
            self.Sgate(sg * p[0], p[1] if len(p) > 1 else 0.0, m[0])
        elif name == "Pgate":
            self.Pgate(sg * p[0], m[0])
        elif name == "BSgate":
            self.BSgate(sg * p[0], p[1] if len(p) > 1 else 0.0, m[0], m[1])
        elif name == "MZgate":
            self.MZgate(p[0], p[1], m[0], m[1], dagger)
        elif name == "sMZgate":
            # no documented matrix: defined by its decomposition BS(pi/4,pi/2) R(p1-pi/2)|1 R(p0-pi/2)|0 BS(pi/4,pi/2)
            seq = [("BSgate", [np.pi / 4, np.pi / 2], m), ("Rgate", [p[1] - np.pi / 2], [m[1]]),
                   ("Rgate", [p[0] - np.pi / 2], [m[0]]), ("BSgate", [np.pi / 4, np.pi / 2], m)]
            if dagger:
                seq = list(reversed(seq))
            for nm, pp, mm in seq:
                self.apply(nm, pp, mm, dagger)
        elif name == "S2gate":
            self.S2gate(sg * p[0], p[1] if len(p) > 1 else 0.0, m[0], m[1])
        elif name == "CXgate":
            self.CXgate(sg * p[0], m[0], m[1])
        elif name == "CZgate":
            self.CZgate(sg * p[0], m[0], m[1])
        elif name == "Interferometer":
            self.Interferometer(np.asarray(p[0]), m, dagger)
        elif name == "GaussianTransform":
            self.GaussianTransform(np.asarray(p[0]), m)
        elif name == "Ggate":
            S = np.asarray(p[0], float)
            dv = np.asarray(p[1], float) * np.sqrt(self.h / 2.0) if len(p) > 1 else None
            if dagger:
                raise RefError("Ggate dagger")
            self.GaussianTransform(S, m, dv)
        elif name == "LossChannel":
            self.LossChannel(p[0], m[0])
        elif name == "ThermalLossChannel":
            self.LossChannel(p[0], m[0], p[1])
        elif name == "PassiveChannel":
            self.PassiveChannel(np.asarray(p[0]), m)
        elif name == "Vacuum":
            for mm in m:
                self.Vacuum(mm)
        elif name == "Coherent":
            self.Coherent(p[0], p[1] if len(p) > 1 else 0.0, m[0])
        elif name == "Squeezed":
            self.Squeezed(p[0], p[1] if len(p) > 1 else 0.0, m[0])
        elif name == "DisplacedSqueezed":
            self.DisplacedSqueezed(p[0], p[1], p[2], p[3], m[0])
        elif name == "Thermal":
            self.Thermal(p[0], m[0])
        elif name == "Gaussian":
            self.Gaussian(np.asarray(p[0]), None if len(p) < 2 or p[1] is None else np.asarray(p[1]), m)
        elif name == "MeasureHomodyne":
            if select is None:
                raise RefError("unconditioned measurement")
            self.condition_homodyne(p[0], select, m[0])
        elif name == "MeasureHeterodyne":
            if select is None:
                raise RefError("unconditioned measurement")
            self.condition_heterodyne(select, m[0])
        elif name in ("Del", "_Delete"):
            for mm in m:
                self.Vacuum(mm)
        else:
            raise RefError("refsim does not know %s" % name)
        return self


GAUSSIAN_UNITARIES = {"Dgate", "Xgate", "Zgate", "Rgate", "Fouriergate", "Sgate", "Pgate", "BSgate", "MZgate", "sMZgate",
                      "S2gate", "CXgate", "CZgate", "Interferometer", "GaussianTransform"}


def selftest():
    """closed forms typed in from the docs; a typo in the oracle must not masquerade as a finding"""
    for h in (2.0, 0.7):
        # coherent amplitudes through a beamsplitter: alpha' = t alpha - r* beta, beta' = t beta + r alpha
        r = Ref(2, h)
        a, b = 0.3 + 0.2j, -0.1 + 0.4j
        r.Dgate(abs(a), np.angle(a), 0)
        r.Dgate(abs(b), np.angle(b), 1)
        th, ph = 0.7, 0.4
        r.BSgate(th, ph, 0, 1)
        _, _, al = r.NM()
        t, rr = np.cos(th), np.exp(1j * ph) * np.sin(th)
        assert np.allclose(al, [t * a - np.conj(rr) * b, t * b + rr * a], atol=1e-12)
        # squeezed variances e^{-+2r} hbar/2
        r = Ref(1, h)
        r.Sgate(0.5, 0.0, 0)
        assert np.allclose(np.diag(r.V), [h / 2 * np.exp(-1.0), h / 2 * np.exp(1.0)])
        r2 = Ref(1, h)
        r2.Squeezed(0.5, 0.0, 0)
        assert np.allclose(r.V, r2.V)
        r3, r4 = Ref(1, h), Ref(1, h)
        r3.Sgate(0.4, 0.9, 0)
        r4.Squeezed(0.4, 0.9, 0)
        assert np.allclose(r3.V, r4.V)
        # two-mode squeezed vacuum: <n> = sinh^2 r each, cov diag cosh 2r
        r = Ref(2, h)
        r.S2gate(0.6, 0.0, 0, 1)
        assert np.allclose(np.diag(r.V), h / 2 * np.cosh(1.2))
        assert abs(r.mean_photon(0) - np.sinh(0.6) ** 2) < 1e-12
        assert abs(r.V[0, 1] - h / 2 * np.sinh(1.2)) < 1e-12 and abs(r.V[2, 3] + h / 2 * np.sinh(1.2)) < 1e-12
        # loss: T V + (1-T) hbar/2
        r = Ref(1, h)
        r.Sgate(0.5, 0.0, 0)
        V0 = r.V.copy()
        r.LossChannel(0.3, 0)
        assert np.allclose(r.V, 0.3 * V0 + 0.7 * h / 2 * np.eye(2))
        # rotation: x -> x cos - p sin ; Fourier: x -> -p, p -> x
        r = Ref(1, h)
        r.Xgate(1.0, 0)
        r.Rgate(0.3, 0)
        assert np.allclose(r.mu, [np.cos(0.3), np.sin(0.3)])
        r = Ref(1, h)
        r.Zgate(1.0, 0)
        r.Fourier(0)
        assert np.allclose(r.mu, [-1.0, 0.0])
        # displacement: x += sqrt(2 hbar) Re alpha
        r = Ref(1, h)
        r.Dgate(0.5, 0.0, 0)
        assert np.allclose(r.mu, [np.sqrt(2 * h) * 0.5, 0])
        # CX: x2 += s x1, p1 -= s p2 ; CZ: p1 += s x2, p2 += s x1 ; P: p += s x
        r = Ref(2, h)
        r.Xgate(1.0, 0)
        r.Zgate(2.0, 1)
        r.CXgate(0.5, 0, 1)
        assert np.allclose(r.mu, [1.0, 0.5, -1.0, 2.0])
        r = Ref(2, h)
        r.Xgate(1.0, 0)
        r.Xgate(3.0, 1)
        r.CZgate(0.5, 0, 1)
        assert np.allclose(r.mu, [1.0, 3.0, 1.5, 0.5])
        r = Ref(1, h)
        r.Xgate(2.0, 0)
        r.Pgate(0.25, 0)
        assert np.allclose(r.mu, [2.0, 0.5])
        # MZ special cases of the docstring
        assert np.allclose(mz_unitary(np.pi, np.pi), np.eye(2))
        assert np.allclose(mz_unitary(0, 0), 1j * np.array([[0, 1], [1, 0]]))
        # all unitaries symplectic
        r = Ref(3, h)
        r.S2gate(0.3, 0.2, 2, 0)
        r.BSgate(0.4, 0.1, 1, 2)
        r.CXgate(0.3, 1, 0)
        r.MZgate(0.3, 0.8, 0, 2)
        assert np.allclose(r.X @ omega(3) @ r.X.T, omega(3))
        assert abs(r.purity() - 1) < 1e-10 and r.uncertainty_min_eig() > -1e-10
        # homodyne conditioning on TMSV: known result - conditioning x of mode 1 gives squeezed-like state in mode 0
        r = Ref(2, h)
        r.S2gate(0.5, 0.0, 0, 1)
        r.condition_homodyne(0.0, 0.0, 1)
        assert abs(r.V[0, 0] - h / 2 / np.cosh(1.0)) < 1e-12 and abs(r.V[2, 2] - h / 2 * np.cosh(1.0)) < 1e-12
        assert abs(r.purity() - 1) < 1e-10
        # heterodyne conditioning of TMSV on alpha: other mode is coherent with amplitude tanh(r) conj(alpha)
        r = Ref(2, h)
        r.S2gate(0.5, 0.0, 0, 1)
        al = 0.3 - 0.2j
        r.condition_heterodyne(al, 1)
        _, _, a0 = r.NM([0])
        assert np.allclose(r.V[np.ix_([0, 2], [0, 2])], h / 2 * np.eye(2)) and abs(a0[0] - np.tanh(0.5) * np.conj(al)) < 1e-12
    return True
