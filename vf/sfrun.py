"""Running JSON program specs on the strawberryfields simulators and reading the returned states in one
common form (means/cov in (x.., p..) order, density tensors)."""
from __future__ import annotations

import numpy as np

from vf import fockref, spec


class Rejected(Exception):
    """the backend/compiler cleanly refused the program (documented rejection)"""


def _clean_rejections():
    from strawberryfields.backends.base import NotApplicableError
    from strawberryfields.program_utils import CircuitError

    return (NotApplicableError, NotImplementedError, CircuitError)


class HbarCtx:
    def __init__(self, hbar):
        self.hbar = hbar

    def __enter__(self):
        import strawberryfields as sf

        self.old = sf.hbar
        sf.hbar = self.hbar

    def __exit__(self, *a):
        import strawberryfields as sf

        sf.hbar = self.old


def run(backend, n, oplist, hbar=2.0, cutoff=6, pure=True, seed=0, prog=None, run_kwargs=None, engine=None, sym=None):
    """Build (fresh Program), run on a fresh engine, return the Result.  Raises Rejected for clean refusals."""
    import strawberryfields as sf

    with HbarCtx(hbar):
        if prog is None:
            prog = spec.build_program(n, oplist, sym=sym)
        opts = {}
        if backend == "fock":
            opts = {"cutoff_dim": int(cutoff), "pure": bool(pure)}
        eng = engine or sf.Engine(backend, backend_options=opts)
        np.random.seed(seed % (2 ** 32))
        try:
            return eng.run(prog, **(run_kwargs or {}))
        except _clean_rejections() as exc:
            raise Rejected("%s: %s" % (type(exc).__name__, exc)) from exc


XPXP = lambda n: [i for k in range(n) for i in (k, k + n)]  # noqa: E731  position of xxpp index in xpxp order
TO_XXPP = lambda n: list(range(0, 2 * n, 2)) + list(range(1, 2 * n, 2))  # noqa: E731


def moments_of(state, backend, hbar=2.0):
    """(mu, V) of all modes, (x.., p..) order, in units of the state's hbar; plus info dict."""
    n = state.num_modes
    if backend == "gaussian":
        return np.array(state.means(), float), np.array(state.cov(), float), {}
    if backend == "bosonic":
        w = np.asarray(state.weights())
        mus = np.asarray(state.means())
        covs = np.asarray(state.covs())
        o = TO_XXPP(n)
        if len(w) == 1:
            mu = np.real(mus[0])[o]
            V = np.real(covs[0])[np.ix_(o, o)]
            return mu, V, {"weights": 1, "wsum": complex(np.sum(w)), "wabs": float(np.sum(np.abs(w)))}
        mean = np.einsum("i,ij->j", w, mus)
        second = np.einsum("i,ijk->jk", w, covs + np.einsum("ij,ik->ijk", mus, mus))
        V = second - np.outer(mean, mean)
        return np.real(mean)[o], np.real(V)[np.ix_(o, o)], {"weights": len(w), "wsum": complex(np.sum(w)), "wabs": float(np.sum(np.abs(w)))}
    if backend == "fock":
        rho = fockref.state_dm(state)
        mu, V = fockref.moments(rho, n, hbar)
        return mu, V, {"trace": fockref.trace(rho, n)}
    raise ValueError(backend)


def weights_bad(info):
    """bosonic weights must sum to one; non-Gaussian preparations use huge alternating weights (|w| ~ 1e5 per Fock mode),
    so the tolerance is 1e-9 + 1e-14 * sum|w| (floating-point cancellation), i.e. 1e-9 for Gaussian states"""
    return abs(info["wsum"] - 1) > 1e-9 + 1e-14 * info["wabs"]
