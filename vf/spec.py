"""JSON program specs <-> strawberryfields Programs, refsim runs, deep snapshots of programs.

op spec:  [name, params, modes, flags]
    params  list of: number | {"re":..,"im":..} | {"mat": [[..]]} | {"cmat": [[[re,im],..]]} | {"vec": [..]}
            | symbolic AST (see vf.props.c10): ["free","a"], ["meas", i], ["add",x,y], ["mul",x,y], ["neg",x], ["fn",name,x]
    flags   {"H": bool, "select": value, "dark_counts": .., "kw": {...}}  (all optional)
"""
from __future__ import annotations

import numpy as np

from vf.refsim import Ref


# ----------------------------------------------------------------------------------------------
# parameter encoding
# ----------------------------------------------------------------------------------------------
def enc_matrix(M):
    M = np.asarray(M)
    if np.iscomplexobj(M):
        return {"cmat": [[[float(z.real), float(z.imag)] for z in row] for row in M]}
    return {"mat": [[float(x) for x in row] for row in M]}


def enc_vec(v):
    return {"vec": [float(x) for x in np.asarray(v).ravel()]}


def dec_param(x):
    if isinstance(x, dict):
        if "re" in x:
            return complex(x["re"], x["im"])
        if "mat" in x:
            return np.array(x["mat"], dtype=float)
        if "cmat" in x:
            return np.array([[complex(a, b) for a, b in row] for row in x["cmat"]], dtype=complex)
        if "vec" in x:
            return np.array(x["vec"], dtype=float)
        if "cvec" in x:
            return np.array([complex(a, b) for a, b in x["cvec"]], dtype=complex)
        raise ValueError("unknown param encoding %r" % (x,))
    if isinstance(x, bool) or x is None:
        return x
    if isinstance(x, (int, float)):
        return x
    if isinstance(x, str):
        return x
    raise ValueError("unknown param %r" % (x,))


def is_symbolic(x):
    return isinstance(x, list)


# ----------------------------------------------------------------------------------------------
# building programs
# ----------------------------------------------------------------------------------------------
NO_ARG_OPS = {"Vacuum": "Vac", "Fouriergate": "Fourier", "Fourier": "Fourier"}


def make_op(ops, name, params, flags=None, sym=None):
    """Instantiate strawberryfields.ops.<name>.  ``sym(ast)`` converts symbolic ASTs."""
    flags = flags or {}
    ps = [sym(p) if is_symbolic(p) else dec_param(p) for p in params]
    kw = dict(flags.get("kw", {}))
    if "select" in flags and flags["select"] is not None:
        kw["select"] = dec_param(flags["select"])
    if "dark_counts" in flags and flags["dark_counts"] is not None:
        kw["dark_counts"] = flags["dark_counts"]
    if name in ("Fouriergate", "Fourier"):
        op = ops.Fouriergate()
    elif name == "Vacuum":
        op = ops.Vacuum()
    elif name in ("Del", "_Delete"):
        return ops.Del
    else:
        op = getattr(ops, name)(*ps, **kw)
    if flags.get("H"):
        op = op.H
    return op


def build_program(n, oplist, sym=None, name=None):
    import strawberryfields as sf
    from strawberryfields import ops

    prog = sf.Program(n) if name is None else sf.Program(n, name=name)
    with prog.context as q:
        for spec in oplist:
            nm, params, modes = spec[0], spec[1], spec[2]
            flags = spec[3] if len(spec) > 3 else {}
            op = make_op(ops, nm, params, flags, sym)
            regs = tuple(q[m] for m in modes)
            op | (regs if len(regs) != 1 else regs[0])
    return prog


def ref_run(n, oplist, hbar=2.0, ref=None):
    ref = Ref(n, hbar) if ref is None else ref
    for spec in oplist:
        nm, params, modes = spec[0], spec[1], spec[2]
        flags = spec[3] if len(spec) > 3 else {}
        sel = flags.get("select")
        ref.apply(nm, [dec_param(p) for p in params], modes, bool(flags.get("H")),
                  None if sel is None else dec_param(sel))
    return ref


# ----------------------------------------------------------------------------------------------
# reading programs back (compiled circuits -> op specs interpretable by refsim)
# ----------------------------------------------------------------------------------------------
def cmd_to_spec(cmd, evaluate=None):
    """strawberryfields Command -> op spec with numeric parameters (numpy arrays kept as arrays)."""
    from strawberryfields.parameters import par_evaluate

    op = cmd.op
    name = op.__class__.__name__
    ps = []
    for p in op.p:
        v = par_evaluate(p) if evaluate is None else evaluate(p)
        if isinstance(v, np.ndarray) and v.ndim >= 1:
            ps.append(enc_matrix(v) if v.ndim == 2 else ({"cvec": [[float(z.real), float(z.imag)] for z in v]} if np.iscomplexobj(v) else enc_vec(v)))
        elif isinstance(v, (complex, np.complexfloating)):
            ps.append({"re": float(v.real), "im": float(v.imag)} if abs(v.imag) > 0 else float(v.real))
        elif isinstance(v, (bool, np.bool_)):
            ps.append(bool(v))
        elif v is None or isinstance(v, str):
            ps.append(v)
        else:
            ps.append(float(v))
    flags = {}
    if getattr(op, "dagger", False):
        flags["H"] = True
    sel = getattr(op, "select", None)
    if sel is not None:
        sel = np.asarray(sel).ravel()
        s0 = sel[0]
        flags["select"] = {"re": float(np.real(s0)), "im": float(np.imag(s0))} if np.iscomplexobj(sel) else float(s0)
    return [name, ps, [r.ind for r in cmd.reg], flags]


def circuit_to_specs(circuit):
    return [cmd_to_spec(c) for c in circuit]


# ----------------------------------------------------------------------------------------------
# snapshots
# ----------------------------------------------------------------------------------------------
def _pval(p):
    from strawberryfields.parameters import par_is_symbolic

    if isinstance(p, np.ndarray):
        if p.dtype == object:
            return ("objarr", tuple(_pval(x) for x in p.ravel()))
        return ("arr", p.shape, p.tobytes())
    try:
        if par_is_symbolic(p):
            return ("sym", str(p))
    except Exception:  # pylint: disable=broad-except
        pass
    if isinstance(p, (list, tuple)):
        return ("seq", tuple(_pval(x) for x in p))
    return ("val", repr(p))


def snapshot(prog, with_ids=True):
    """Deep comparable record of a Program: per command class, parameters by value (and identity),
    dagger/select/dark_counts/extra attributes, register indices, identity of op objects."""
    rec = []
    for cmd in prog.circuit:
        op = cmd.op
        extra = {}
        for k, v in sorted(vars(op).items()):
            if k in ("p", "_measurement_deps"):
                continue
            if isinstance(v, np.ndarray):
                extra[k] = ("arr", v.shape, v.tobytes())
            else:
                try:
                    extra[k] = repr(v)
                except Exception:  # pylint: disable=broad-except
                    extra[k] = "<unrepr>"
        item = {
            "cls": op.__class__.__name__,
            "p": tuple(_pval(p) for p in op.p),
            "extra": tuple(sorted(extra.items())),
            "reg": tuple(r.ind for r in cmd.reg),
        }
        if with_ids:
            item["op_id"] = id(op)
            item["p_ids"] = tuple(id(p) for p in op.p)
            item["cmd_id"] = id(cmd)
        rec.append(item)
    meta = {
        "num_subsystems": prog.num_subsystems,
        "reg": tuple((r.ind, r.active) for r in prog.register),
        "init_num_subsystems": prog.init_num_subsystems,
        "target": prog.target,
        "run_options": repr(sorted(prog.run_options.items())),
        "backend_options": repr(sorted(prog.backend_options.items())),
        "free_params": tuple(sorted(prog.free_params.keys())),
    }
    return {"cmds": rec, "meta": meta}


def snapshot_diff(a, b, ignore_meta=()):
    """human readable first difference between two snapshots (None if equal)"""
    if len(a["cmds"]) != len(b["cmds"]):
        return "number of commands %d -> %d" % (len(a["cmds"]), len(b["cmds"]))
    for k, (x, y) in enumerate(zip(a["cmds"], b["cmds"])):
        for key in x:
            if x[key] != y.get(key):
                return "command #%d (%s): %s changed from %r to %r" % (k, x["cls"], key, _short(x[key]), _short(y.get(key)))
    for key in a["meta"]:
        if key in ignore_meta:
            continue
        if a["meta"][key] != b["meta"][key]:
            return "program attribute %s changed from %r to %r" % (key, a["meta"][key], b["meta"][key])
    return None


def _short(x):
    s = repr(x)
    return s if len(s) < 200 else s[:200] + "..."
