"""rngspy - records / controls the calls the code under test makes to numpy.random.<fn>(...).

The repo calls the samplers as attributes of the ``numpy.random`` module at call time
(``np.random.multivariate_normal(...)``), so replacing the module attributes from the harness is enough;
nothing in /repo is touched.  Every call is logged with its arguments; the returned value is produced by a
``numpy.random.RandomState`` seeded from the case, unless the ``policy`` callback forces a value:

    with RngSpy(seed=3, policy=lambda call: forced_value_or_None) as spy:
        ...code under test...
    spy.calls -> list of Call(name, args, kwargs, result, index)

This turns statistical claims into deterministic ones: *the distribution parameters handed to the sampler
must equal the Born distribution computed by the oracle*.
"""
from __future__ import annotations

import numpy as np

NAMES = ["normal", "multivariate_normal", "choice", "multinomial", "random", "random_sample", "rand", "uniform",
         "poisson", "shuffle", "permutation", "randint", "binomial", "exponential", "standard_normal"]


class Call:
    def __init__(self, name, args, kwargs, index):
        self.name = name
        self.args = args
        self.kwargs = kwargs
        self.index = index
        self.result = None
        self.forced = False

    def arg(self, pos, key, default=None):
        if len(self.args) > pos:
            return self.args[pos]
        return self.kwargs.get(key, default)

    def __repr__(self):
        return "Call(%s #%d)" % (self.name, self.index)


class RngSpy:
    def __init__(self, seed=0, policy=None, names=None):
        self.rs = np.random.RandomState(seed % (2 ** 32))
        self.policy = policy
        self.names = names or NAMES
        self.calls = []
        self._orig = {}

    def _wrap(self, name):
        def wrapper(*args, **kwargs):
            call = Call(name, tuple(_copy(a) for a in args), {k: _copy(v) for k, v in kwargs.items()}, len(self.calls))
            self.calls.append(call)
            forced = self.policy(call) if self.policy is not None else None
            if forced is not None:
                call.forced = True
                call.result = forced
                if name == "shuffle":
                    # in-place semantic: forced value is the new order
                    args[0][...] = forced
                    return None
                return forced
            res = getattr(self.rs, name)(*args, **kwargs)
            call.result = _copy(args[0]) if name == "shuffle" else _copy(res)
            return res

        return wrapper

    def __enter__(self):
        for name in self.names:
            if hasattr(np.random, name):
                self._orig[name] = getattr(np.random, name)
                setattr(np.random, name, self._wrap(name))
        return self

    def __exit__(self, *exc):
        for name, fn in self._orig.items():
            setattr(np.random, name, fn)
        self._orig = {}
        return False

    def by_name(self, name):
        return [c for c in self.calls if c.name == name]


def _copy(x):
    if isinstance(x, np.ndarray):
        return x.copy()
    if isinstance(x, (list, tuple)):
        return type(x)(_copy(v) for v in x)
    return x


def selftest():
    orig = np.random.normal
    with RngSpy(seed=1, policy=lambda c: 42.0 if c.name == "normal" and c.index == 1 else None) as spy:
        a = np.random.normal(0.0, 1.0)
        b = np.random.normal(3.0, 2.0)
        c = np.random.choice(5, p=[0.2] * 5)
    assert np.random.normal is orig
    assert b == 42.0 and spy.calls[1].forced and not spy.calls[0].forced
    assert spy.calls[1].arg(0, "loc") == 3.0 and spy.calls[2].name == "choice" and 0 <= c < 5
    with RngSpy(seed=1) as spy2:
        a2 = np.random.normal(0.0, 1.0)
    assert a == a2
    return True
