"""fockref - small independent Fock-space helpers used to read Fock-backend states without trusting
strawberryfields.backends.states.  Density tensors use the layout rho[i0, j0, i1, j1, ...]."""
from __future__ import annotations

import numpy as np

_LET = "abcdefghijklmnopqrstuvwxyz"


def ket_to_dm(psi):
    n = psi.ndim
    a = _LET[:n]
    b = _LET[n:2 * n]
    out = "".join(x + y for x, y in zip(a, b))
    return np.einsum("%s,%s->%s" % (a, b, out), psi, psi.conj())


def state_dm(state):
    """density tensor of a BaseFockState straight from its data (no use of state.dm())"""
    d = np.asarray(state.data)
    n = state.num_modes
    if d.ndim == n:
        return ket_to_dm(d)
    if d.ndim == 2 * n:
        return d
    raise ValueError("unexpected Fock state data shape %r for %d modes" % (d.shape, n))


def reduce_dm(rho, n, keep):
    """partial trace keeping modes `keep` (in the order given)"""
    keep = list(keep)
    ins = ""
    for m in range(n):
        if m in keep:
            ins += _LET[2 * m] + _LET[2 * m + 1]
        else:
            ins += _LET[2 * m] * 2
    out = "".join(_LET[2 * m] + _LET[2 * m + 1] for m in keep)
    return np.einsum(ins + "->" + out, rho)


def dm_to_matrix(rho, k):
    """(i0,j0,i1,j1..) tensor of k modes -> (D^k, D^k) matrix"""
    D = rho.shape[0]
    perm = [2 * m for m in range(k)] + [2 * m + 1 for m in range(k)]
    return np.transpose(rho, perm).reshape(D ** k, D ** k)


def trace(rho, n):
    return float(np.real(np.einsum("".join(_LET[m] * 2 for m in range(n)), rho)))


def probs(rho, n):
    """diagonal p(n0, n1, ...)"""
    ins = "".join(_LET[m] * 2 for m in range(n))
    out = "".join(_LET[m] for m in range(n))
    return np.real(np.einsum(ins + "->" + out, rho))


def ladder(D):
    return np.diag(np.sqrt(np.arange(1, D)), 1).astype(complex)


def quad_op(D, phi, hbar):
    a = ladder(D)
    return np.sqrt(hbar / 2) * (a * np.exp(-1j * phi) + a.conj().T * np.exp(1j * phi))


def moments(rho, n, hbar):
    """means (x.., p..) and symmetrised covariance of all modes from a density tensor.

    Uses truncated ladder operators: exact only for states with negligible weight near the cutoff.
    Returned values are normalised by the trace."""
    D = rho.shape[0]
    tr = trace(rho, n)
    x = quad_op(D, 0.0, hbar)
    p = quad_op(D, np.pi / 2, hbar)
    opsl = [(m, x) for m in range(n)] + [(m, p) for m in range(n)]
    mu = np.zeros(2 * n)
    for a, (m, o) in enumerate(opsl):
        r1 = reduce_dm(rho, n, [m])
        mu[a] = np.real(np.trace(r1 @ o)) / tr
    V = np.zeros((2 * n, 2 * n))
    for a, (m1, o1) in enumerate(opsl):
        for b, (m2, o2) in enumerate(opsl):
            if b < a:
                continue
            if m1 == m2:
                r1 = reduce_dm(rho, n, [m1])
                val = np.real(np.trace(r1 @ (o1 @ o2 + o2 @ o1))) / 2 / tr
            else:
                r2 = reduce_dm(rho, n, [m1, m2])  # (i1,j1,i2,j2)
                val = np.real(np.einsum("abcd,ba,dc->", r2, o1, o2)) / tr
            V[a, b] = V[b, a] = val - mu[a] * mu[b]
    return mu, V


def mean_photons(rho, n):
    D = rho.shape[0]
    tr = trace(rho, n)
    return [float(np.real(np.sum(np.diag(reduce_dm(rho, n, [m])) * np.arange(D))) / tr) for m in range(n)]


def purity(rho, n):
    M = dm_to_matrix(rho, n)
    t = np.real(np.trace(M))
    return float(np.real(np.trace(M @ M)) / t ** 2)


def selftest():
    D = 12
    # coherent state moments
    al = 0.3 + 0.2j
    k = np.arange(D)
    from math import factorial

    psi = np.exp(-abs(al) ** 2 / 2) * al ** k / np.sqrt([factorial(int(i)) for i in k])
    rho = ket_to_dm(psi)
    mu, V = moments(rho, 1, 2.0)
    assert np.allclose(mu, [2 * al.real, 2 * al.imag], atol=1e-8), mu
    assert np.allclose(V, np.eye(2), atol=1e-6), V
    # two-mode product, reduce and probs
    phi = np.zeros(D, complex)
    phi[1] = 1
    rho2 = ket_to_dm(np.einsum("a,b->ab", psi, phi))
    assert np.allclose(reduce_dm(rho2, 2, [1]), ket_to_dm(phi))
    assert np.allclose(reduce_dm(rho2, 2, [0]), rho)
    assert abs(trace(rho2, 2) - trace(rho, 1)) < 1e-12
    assert abs(probs(rho2, 2)[0, 1] - abs(psi[0]) ** 2) < 1e-12
    assert abs(mean_photons(rho2, 2)[1] - 1) < 1e-12
    assert abs(purity(rho2, 2) - 1) < 1e-9
    return True
